'''
C19 - New instances get typed defaults and fresh non-null identifiers.

  C19-DEFAULTS  abstract table of MetaClass.default_value over the type alphabet
  C19-ORDER     MetaClass.new: defaults -> positional -> keywords; defaults skip exactly referentials
  C19-GEN       IdGenerator.peek is pure; next returns the previous value and re-reads;
                IntegerGenerator yields 1, 2, 3, ...; UUIDGenerator draws uuid4;
                each MetaModel owns its generator
'''
import ast
import itertools

from ..src import AnalysisError, loc, src, dotted, call_attr, param_names, walk_local, body_without_doc
from .. import pm, absint
from .common import is_case_normalised, exception_class_name

TYPES = ['BOOLEAN', 'INTEGER', 'REAL', 'STRING', 'UNIQUE_ID', 'SOMETHING_ELSE']
DEFAULTS = {'BOOLEAN': (bool, False), 'INTEGER': (int, 0), 'REAL': (float, 0.0), 'STRING': (str, '')}


def run(ctx):
    ctx.guard(defaults, ctx)
    ctx.guard(order, ctx)
    ctx.guard(generators, ctx)
    ctx.guard(forwarding, ctx)
    ctx.guard(handing_on, ctx)
    ctx.guard(entry, ctx)
    ctx.guard(keep_defaults, ctx)
    from . import c01 as _c01
    ctx.shared(_c01.order, ctx)                # instances come into being through MetaClass.new only (where the defaults are computed)
    from . import c18 as _c18
    ctx.shared(_c18.escape, ctx)               # a class owns its attribute list (defaults and positional order are computed from it)
    ctx.assume('a random 128-bit uuid4 is never 0 and never repeats (probabilistic; not decided)')
    ctx.assume('user supplied generators honour the IdGenerator contract')
    return ('Abstract execution of MetaClass.default_value for every type name (in declared and in other letter '
            'case, with and without an owning metamodel); phase order and guards of MetaClass.new; purity of '
            'IdGenerator.peek, value flow of next(), symbolic evaluation of the IntegerGenerator sequence.')


def defaults(ctx):
    repo = ctx.repo
    r = ctx.rule('C19-DEFAULTS', 'default_value maps every type name to the default the property states', floor=12,
                 oracle='property statement (false, 0, 0.0, empty string, generator id, MetaException)')
    fn = repo.func('xtuml.meta:MetaClass.default_value')
    P = param_names(fn)[0]

    def norm_assign(e, s, tr):
        v = e['_V']
        if is_case_normalised(v) and isinstance(v.func.value, ast.Name) and v.func.value.id == P:
            s.setdefault('nvars', {})[e['_N'].id] = v.func.attr
            return True
        return False

    def cmp_lit(e, s, tr):
        a, b = e['_A'], e['_B']
        lit, other = (a, b) if isinstance(a, ast.Constant) else (b, a)
        if not (isinstance(lit, ast.Constant) and isinstance(lit.value, str)):
            return None
        if is_case_normalised(other) and isinstance(other.func.value, ast.Name) and other.func.value.id == P:
            n = other.func.attr
        elif isinstance(other, ast.Name) and other.id in s.get('nvars', {}):
            n = s['nvars'][other.id]
        elif isinstance(other, ast.Name) and other.id == P:
            n = None
        else:
            return None
        if n is None:
            spelled = s['type'] if s['declared_case'] else s['type'].lower()
            return spelled == lit.value
        return getattr(s['type'], n)() == lit.value

    def in_lits(e, s, tr):
        lits = e['_L']
        if isinstance(lits, ast.Dict) and all(k is not None for k in lits.keys):
            elts = lits.keys
        elif isinstance(lits, (ast.Tuple, ast.List, ast.Set)):
            elts = lits.elts
        else:
            return None
        for x in elts:
            r_ = cmp_lit({'_A': e['_A'], '_B': x}, s, tr)
            if r_ is None:
                return None
            if r_:
                return True
        return False

    atoms = [('_A == _B', cmp_lit), ('_A in _L', in_lits),
             ('_A != _B', lambda e, s, tr: (None if cmp_lit(e, s, tr) is None else not cmp_lit(e, s, tr))),
             ('_A not in _L', lambda e, s, tr: (None if in_lits(e, s, tr) is None else not in_lits(e, s, tr))),
             ('self.metamodel', lambda e, s, tr: s['has_mm']),
             ('self.metamodel is not None', lambda e, s, tr: s['has_mm']),
             ('self.metamodel is None', lambda e, s, tr: not s['has_mm'])]
    it = absint.Interp(fn, atoms, [('_N = _V', norm_assign)])
    for ty, declared_case, has_mm in itertools.product(TYPES, [True, False], [True, False]):
        st = {'type': ty, 'declared_case': declared_case, 'has_mm': has_mm}
        spelled = ty if declared_case else ty.lower()
        desc = "default_value(%r, metamodel=%s)" % (spelled, 'yes' if has_mm else 'none')
        state = dict(st)
        out, tr = it.run(state)
        if out.kind == 'return' and out.value is not None:
            # table-driven spelling: {'BOOLEAN': False, ..}[<normalised type name>]
            found, sel = absint.dict_lookup(out.value, lambda k, kn: cmp_lit({'_A': k, '_B': kn}, state, tr))
            if found:
                if sel is None:
                    out = absint.Outcome('raise', out.node, ast.parse('KeyError()').body[0].value)
                else:
                    out = absint.Outcome('return', out.node, sel)
        if ty in DEFAULTS:
            want_t, want_v = DEFAULTS[ty]
            ok = (out.kind == 'return' and isinstance(out.value, ast.Constant)
                  and type(out.value.value) is want_t and out.value.value == want_v)
            r.check(ok, '%s -> %r' % (desc, want_v), fn, construct='xtuml.meta:MetaClass.default_value',
                    key='default %s' % ty, msg='%s must return %r (%s); it ends with %r' % (desc, want_v, want_t.__name__, out))
        elif ty == 'UNIQUE_ID':
            if has_mm:
                ok = out.kind == 'return' and out.value is not None and (
                    pm.match('next(self.metamodel.id_generator)', out.value) is not None or
                    pm.match('self.metamodel.id_generator.next()', out.value) is not None)
                r.check(ok, '%s -> next id of the metamodel generator' % desc, fn,
                        construct='xtuml.meta:MetaClass.default_value', key='default UNIQUE_ID',
                        msg='%s must draw the next id from the owning metamodel\'s generator; it ends with %r' % (desc, out))
            else:
                ok = out.kind in ('return', 'raise')
                r.check(ok, '%s -> none / rejected (no generator available)' % desc, fn,
                        construct='xtuml.meta:MetaClass.default_value', key='default UNIQUE_ID no metamodel',
                        msg='%s falls off the end' % desc)
        else:
            ok = out.kind == 'raise' and exception_class_name(out.node) == 'MetaException'
            r.check(ok, '%s -> MetaException' % desc, fn, construct='xtuml.meta:MetaClass.default_value',
                    key='default unknown', msg='%s must raise MetaException; it ends with %r' % (desc, out))
    # no other id source in meta.py
    mod = repo.module('xtuml.meta')
    others = [n for n in ast.walk(mod.tree) if isinstance(n, ast.Attribute) and dotted(n) and dotted(n).startswith('uuid.')]
    r.check(not others, 'xtuml.meta draws identifiers only from MetaModel.id_generator', others[0] if others else None,
            construct='xtuml.meta', key='other-id-source', msg='xtuml.meta uses the uuid module directly')


def order(ctx):
    repo = ctx.repo
    r = ctx.rule('C19-ORDER', 'MetaClass.new: defaults, then positional arguments in attribute order, then keywords',
                 floor=8, oracle='property statement')
    fn = repo.func('xtuml.meta:MetaClass.new')
    Q = 'xtuml.meta:MetaClass.new'
    body = body_without_doc(fn)
    inst = None
    for st in body:
        m = pm.match('_I = self.clazz()', st)
        if m:
            inst = m['_I'].id
    if inst is None:
        raise AnalysisError('%s: MetaClass.new does not create `self.clazz()`' % loc(fn))
    r.check(pm.contains('self.storage.append(%s)' % inst, fn), 'the new instance is appended to the pool', fn,
            construct=Q, key='append', msg='MetaClass.new does not append the new instance to self.storage')
    loops = [st for st in body if isinstance(st, ast.For)]
    phase = {}
    for idx, lp in enumerate(loops):
        if 'self.attributes' in src(lp.iter) and any(
                isinstance(n, ast.Call) and call_attr(n) == 'default_value' for n in ast.walk(lp)):
            phase.setdefault('defaults', (idx, lp))
            r.check(pm.match('self.attributes', lp.iter) is not None, 'defaults are computed for every declared attribute', lp, construct=Q,
                    key='defaults-range ' + src(lp.iter),
                    msg='the defaults phase ranges over `%s`, not over all of self.attributes: attributes outside that range get no typed '
                        'default (and an unknown type is not rejected there)' % src(lp.iter))
        elif pm.match('zip(self.attributes, args)', lp.iter) is not None:
            phase.setdefault('positional', (idx, lp))
        elif pm.match('zip(_X, args)', lp.iter) is not None or pm.match('zip(args, _X)', lp.iter) is not None:
            r.violation('positional arguments are paired with `%s`, not with the attributes in declared order (zip(self.attributes, args))'
                        % src(lp.iter), lp, construct=Q, key='positional-pairing ' + src(lp.iter))
            return
        elif pm.match('kwargs.items()', lp.iter) is not None:
            phase.setdefault('keywords', (idx, lp))
    for need in ('defaults', 'positional', 'keywords'):
        if need not in phase:
            if need == 'positional' and any(pm.match('zip(args, self.attributes)', lp.iter) is not None for lp in loops):
                r.violation('positional arguments are zipped as (args, attributes): names and values are swapped', fn,
                            construct=Q, key='zip-swapped')
                return
            raise AnalysisError('%s: MetaClass.new: cannot find the %s phase' % (loc(fn), need))
    r.check(phase['defaults'][0] < phase['positional'][0] < phase['keywords'][0],
            'phase order defaults < positional < keywords', fn, construct=Q, key='phase-order',
            msg='MetaClass.new assigns in the order %s; required: defaults, positional, keywords'
                % sorted(phase, key=lambda k: phase[k][0]))
    # defaults phase: skip exactly the referential attributes
    lp = phase['defaults'][1]
    if not (isinstance(lp.target, ast.Tuple) and len(lp.target.elts) == 2):
        raise AnalysisError('%s: defaults loop target not understood' % loc(lp))
    nm, ty = [e.id for e in lp.target.elts]
    guards = [st for st in lp.body if isinstance(st, ast.If)]
    ok = (len(lp.body) == 1 and len(guards) == 1 and
          pm.match('%s not in self.referential_attributes' % nm, guards[0].test) is not None and not guards[0].orelse)
    r.check(ok, 'defaults are assigned to every attribute except the referential ones', lp, construct=Q,
            key='defaults-guard', msg='the defaults phase is not guarded by exactly `%s not in self.referential_attributes`' % nm)
    if ok:
        g = guards[0]
        good = pm.match(['_V = self.default_value(%s)' % ty, 'setattr(%s, %s, _V)' % (inst, nm)], g.body) is not None or \
            pm.match(['setattr(%s, %s, self.default_value(%s))' % (inst, nm, ty)], g.body) is not None
        r.check(good, 'default of the attribute\'s own type is stored under the attribute\'s name', g, construct=Q,
                key='defaults-store', msg='defaults phase does not store default_value(<type of the attribute>) under its name')
    # positional phase
    lp = phase['positional'][1]
    _assign_phase(r, Q, lp, inst, positional=True)
    _assign_phase(r, Q, phase['keywords'][1], inst, positional=False)


def _assign_phase(r, Q, lp, inst, positional):
    what = 'positional' if positional else 'keyword'
    if not (isinstance(lp.target, ast.Tuple) and len(lp.target.elts) == 2 and
            all(isinstance(e, ast.Name) for e in lp.target.elts)):
        raise AnalysisError('%s: %s loop target not understood' % (loc(lp), what))
    first, value = [e.id for e in lp.target.elts]
    name = first
    if positional:
        name = None
        for st in lp.body:
            m = pm.match('_N, _T = %s' % first, st)
            if m:
                name = m['_N'].id
            m = pm.match('_N = %s[0]' % first, st)
            if m:
                name = m['_N'].id
        if name is None:
            raise AnalysisError('%s: positional loop does not unpack (name, type)' % loc(lp))
    ifs = [st for st in lp.body if isinstance(st, ast.If) and
           (pm.match('%s not in self.referential_attributes' % name, st.test) is not None or
            pm.match('%s in self.referential_attributes' % name, st.test) is not None)]
    if len(ifs) != 1:
        r.violation('%s phase does not distinguish referential attributes' % what, lp, construct=Q, key=what + '-no-guard')
        return
    g = ifs[0]
    neg = pm.match('%s not in self.referential_attributes' % name, g.test) is not None
    plain, ref = (g.body, g.orelse) if neg else (g.orelse, g.body)
    r.check(pm.match(['setattr(%s, %s, %s)' % (inst, name, value)], plain) is not None,
            '%s argument is stored under its attribute name' % what, g, construct=Q, key=what + '-store',
            msg='%s phase does not execute setattr(%s, %s, %s) for plain attributes' % (what, inst, name, value))
    r.check(pm.match(['_D[%s] = %s' % (name, value)], ref) is not None,
            '%s referential argument is collected for the batch relate' % what, g, construct=Q, key=what + '-collect',
            msg='%s phase does not collect referential values as <dict>[%s] = %s' % (what, name, value))


def entry(ctx):
    '''the creation entry points hand their positional and keyword arguments to MetaClass.new untouched (a filtered or re-built
    argument set loses explicitly given falsy values: 0, '', False, the null id)'''
    from .. import absint as _ai
    repo = ctx.repo
    r = ctx.rule('C19-ENTRY', 'MetaModel.new and calling a metaclass forward their arguments to MetaClass.new unchanged', floor=2,
                 oracle='property statement (positional arguments in declaration order, then keyword arguments)')
    for q, recv in (('xtuml.meta:MetaModel.new', 'self.find_metaclass(%s)'), ('xtuml.meta:MetaClass.__call__', 'self')):
        fn = repo.func(q, required=False)
        if fn is None:
            continue
        a = fn.args
        if not (a.vararg and a.kwarg):
            r.violation('%s no longer takes *args and **kwargs' % q, fn, construct=q, key='signature')
            continue
        ps = param_names(fn)
        want = '%s.new(*%s, **%s)' % (recv % ps[0] if '%s' in recv else recv, a.vararg.arg, a.kwarg.arg)
        it_ = _ai.Interp(fn, [])
        it_.pure_calls = {'find_metaclass', 'new', 'dict', 'list', 'tuple'}
        out_, tr_ = it_.run({})
        v = _ai.strip0(out_.value) if out_.kind == 'return' and out_.value is not None else None
        r.check(v is not None and pm.match(want, v) is not None, '%s returns %s' % (q.split(':')[1], want), fn, construct=q, key='forward-args',
                msg='%s creates the instance with `%s`; it must hand its arguments on unchanged: `%s`' % (q, src(v) if v is not None else out_, want))


def forwarding(ctx):
    '''a metamodel subclass hands the id generator it is given on to MetaModel.__init__'''
    repo = ctx.repo
    r = ctx.rule('C19-FORWARD', 'subclasses of MetaModel pass their id_generator to the base constructor', floor=1,
                 oracle='MetaModel.__init__(self, id_generator=None) stores the generator that default_value draws from')
    base = repo.func('xtuml.meta:MetaModel.__init__')
    gp = [p_ for p_ in param_names(base) if 'generator' in p_]
    if not gp:
        raise AnalysisError('%s: MetaModel.__init__ has no id generator parameter' % loc(base))
    for modname, mod in sorted(repo.modules.items()):
        for c in [n for n in mod.tree.body if isinstance(n, ast.ClassDef)]:
            if not any((dotted(b) or '').split('.')[-1] == 'MetaModel' for b in c.bases):
                continue
            init = repo.methods(c).get('__init__')
            q = '%s:%s.__init__' % (modname, c.name)
            if init is None:
                r.ok('%s inherits MetaModel.__init__' % c.name, c, construct=q)
                continue
            own = [p_ for p_ in param_names(init) if 'generator' in p_]
            calls = [n for n in ast.walk(init) if isinstance(n, ast.Call) and call_attr(n) == '__init__']
            ok = False
            for cl in calls:
                args = [a for a in cl.args] + [k.value for k in cl.keywords]
                if own and any(isinstance(a, ast.Name) and a.id == own[0] for a in args):
                    ok = True
            r.check(ok or not own, '%s forwards `%s` to the base constructor' % (q, own[0] if own else '-'), init, construct=q, key='forward',
                    msg='%s accepts `%s` but does not pass it to MetaModel.__init__: identifiers of new instances then come from the default '
                        'generator, not from the one the caller supplied' % (q, own[0] if own else '?'))


def handing_on(ctx):
    '''every other function that is given an id generator (ModelLoader.build_metamodel) hands exactly that object to what it builds'''
    from .common import resolve_locals
    repo = ctx.repo
    r = ctx.rule('C19-HANDON', 'functions that accept an id generator pass it unchanged to the metamodel they create', floor=1,
                 oracle='property statement (every defaulted unique id comes from the metamodel\'s generator: the one the caller supplied)')
    takers = set()
    cands = []
    for modname, mod in sorted(repo.modules.items()):
        for c in [n for n in mod.tree.body if isinstance(n, ast.ClassDef)]:
            for m in c.body:
                if isinstance(m, ast.FunctionDef) and any('generator' in p_ for p_ in param_names(m)):
                    if m.name == '__init__':
                        takers.add(c.name)
                    else:
                        takers.add(m.name)
                        cands.append('%s:%s.%s' % (modname, c.name, m.name))
        for f in [n for n in mod.tree.body if isinstance(n, ast.FunctionDef)]:
            if any('generator' in p_ for p_ in param_names(f, skip_self=False)):
                takers.add(f.name)
                cands.append('%s:%s' % (modname, f.name))
    for q in cands:
        fn = repo.nfunc(q)
        own = [a.arg for a in fn.args.args + fn.args.kwonlyargs if 'generator' in a.arg]
        for p_ in own:
            stores = [n for n in ast.walk(fn) if isinstance(n, ast.Name) and n.id == p_ and isinstance(n.ctx, (ast.Store, ast.Del))]
            calls = [n for n in ast.walk(fn) if isinstance(n, ast.Call) and (dotted(n.func) or '').split('.')[-1] in takers]
            passed = []
            for cl in calls:
                args = [resolve_locals(fn, a) for a in cl.args if not isinstance(a, ast.Starred)] + [resolve_locals(fn, k.value) for k in cl.keywords if k.arg]
                passed.append(any(isinstance(a, ast.Name) and a.id == p_ for a in args))
            ok = not stores and bool(calls) and all(passed)
            r.check(ok, '%s hands `%s` on unchanged' % (q, p_), fn, construct=q, key='hand-on ' + p_,
                    msg='%s accepts `%s` but %s: identifiers of new instances then do not come from the generator the caller supplied'
                        % (q, p_, 'rebinds it before use' if stores else 'does not pass it to %s' % (sorted({(dotted(c.func) or '?') for c in calls}) or 'any constructor')))


def generators(ctx):
    repo = ctx.repo
    r = ctx.rule('C19-GEN', 'id generators: pure peek, next returns previous value, integer sequence 1,2,3,...', floor=8,
                 oracle='property statement')
    cls = repo.cls('xtuml.tools:IdGenerator')
    ms = repo.methods(cls)
    Q = 'xtuml.tools:IdGenerator'
    alias = repo.assigns_in_class(cls).get('__next__')
    if alias is not None and '__next__' not in ms:
        r.violation('IdGenerator.__next__ is bound as `__next__ = %s`: the alias is fixed to the base-class function, so the builtin next(generator) '
                    'bypasses a subclass that overrides next() and ids no longer come from the user\'s generator' % src(alias), alias,
                    construct=Q + '.__next__', key='next-alias')
        return
    for need in ('__init__', 'peek', 'next', '__next__', '__iter__'):
        if need not in ms:
            raise AnalysisError('%s: IdGenerator.%s is missing' % (loc(cls), need))
    # peek: no store, no call
    peek = ms['peek']
    impure = [n for n in ast.walk(peek) if isinstance(n, (ast.Assign, ast.AugAssign, ast.Call, ast.Delete))]
    rets = [n for n in ast.walk(peek) if isinstance(n, ast.Return)]
    r.check(not impure and len(rets) == 1 and pm.match('self._current', rets[0].value) is not None,
            'peek returns self._current without any store or call', peek, construct=Q + '.peek', key='peek-pure',
            msg='peek is not a pure read of self._current: %s' % [src(n) for n in impure[:3]])
    # __init__ primes the current value
    r.check(pm.contains('self._current = self.readfunc()', ms['__init__']), '__init__ reads the first value', ms['__init__'],
            construct=Q + '.__init__', key='init-prime', msg='__init__ does not prime self._current with self.readfunc()')
    # next: value flow
    nxt = ms['next']
    body = body_without_doc(nxt)
    saved = None
    order_ok = False
    for i, st in enumerate(body):
        m = pm.match('_V = self._current', st)
        if m and saved is None:
            saved = (i, m['_V'].id)
        if pm.match('self._current = self.readfunc()', st) is not None and saved is not None and i > saved[0]:
            order_ok = True
    last = body[-1] if body else None
    ret_ok = saved is not None and isinstance(last, ast.Return) and pm.match(saved[1], last.value) is not None
    stores = [n for n in ast.walk(nxt) if isinstance(n, (ast.Assign, ast.AugAssign)) and 'self._current' in src(n).split('=')[0]]
    r.check(order_ok and ret_ok and len(stores) == 1, 'next saves the current value, re-reads once, returns the saved value', nxt,
            construct=Q + '.next', key='next-flow',
            msg='next does not (1) save self._current, (2) assign self._current = self.readfunc() once, (3) return the saved value')
    r.check(pm.contains('return self.next()', ms['__next__']), '__next__ delegates to next', ms['__next__'],
            construct=Q + '.__next__', key='dunder-next', msg='__next__ does not return self.next()')
    r.check(pm.contains('return self', ms['__iter__']), '__iter__ returns the generator itself', ms['__iter__'],
            construct=Q + '.__iter__', key='dunder-iter', msg='__iter__ does not return self')
    # IntegerGenerator: symbolic sequence
    ig = repo.cls('xtuml.tools:IntegerGenerator')
    consts = repo.assigns_in_class(ig)
    rf = repo.methods(ig).get('readfunc')
    if rf is None or '_current' not in consts:
        raise AnalysisError('%s: IntegerGenerator no longer defines _current / readfunc' % loc(ig))
    c0 = absint.const_value(consts['_current'])
    rets = [n for n in ast.walk(rf) if isinstance(n, ast.Return)]
    step = None
    if len(rets) == 1:
        m = pm.match('self._current + _K', rets[0].value) or pm.match('_K + self._current', rets[0].value)
        if m and isinstance(m['_K'], ast.Constant):
            step = m['_K'].value
    if step is None:
        raise AnalysisError('%s: IntegerGenerator.readfunc is not `self._current + <const>`' % loc(rf))
    seq = []
    cur = c0 + step            # __init__
    for _ in range(4):
        seq.append(cur)        # next() returns the saved value
        cur = cur + step
    r.check(seq == [1, 2, 3, 4], 'IntegerGenerator yields 1, 2, 3, 4, ...', rf, construct='xtuml.tools:IntegerGenerator',
            key='int-seq', msg='IntegerGenerator yields %s..., expected 1, 2, 3, 4' % seq)
    r.check('__init__' not in repo.methods(ig) and 'next' not in repo.methods(ig) and 'peek' not in repo.methods(ig),
            'IntegerGenerator inherits __init__/next/peek unchanged', ig, construct='xtuml.tools:IntegerGenerator',
            key='int-override', msg='IntegerGenerator overrides __init__/next/peek')
    ug = repo.cls('xtuml.tools:UUIDGenerator')
    rf = repo.methods(ug).get('readfunc')
    ok = rf is not None and any(pm.match('uuid.uuid4().int', n.value) is not None for n in ast.walk(rf)
                                if isinstance(n, ast.Return) and n.value is not None)
    r.check(ok, 'UUIDGenerator draws uuid4().int', rf or ug, construct='xtuml.tools:UUIDGenerator', key='uuid4',
            msg='UUIDGenerator.readfunc does not return uuid.uuid4().int')
    r.check(set(repo.methods(ug)) <= {'readfunc'}, 'UUIDGenerator inherits __init__/next/peek unchanged', ug,
            construct='xtuml.tools:UUIDGenerator', key='uuid-override', msg='UUIDGenerator overrides generator methods')
    # each metamodel owns its generator
    init = repo.func('xtuml.meta:MetaModel.__init__')
    p = param_names(init)[0]
    # abstract execution: what is stored in self.id_generator when no generator / a generator is given
    from .. import absint as _ai
    stored = {}

    def truth(e, s, tr):
        x = e['_X']
        if isinstance(x, ast.Name) and x.id == p:
            return bool(s['given'])
        return None

    def store(e, s, tr):
        v = e['_V']
        hops = 0
        while isinstance(v, ast.IfExp) and hops < 4:
            hops += 1
            v = v.body if it_.cond(v.test, s, tr) else v.orelse
        tr.append(('store', v))
        return True
    def isinst(e, s, tr):
        x = e['_X']
        if isinstance(x, ast.Name) and x.id == p:
            # only an object that derives from the named class passes; None and duck-typed generators do not
            return s['given'] == 'idgen'
        return None
    it_ = _ai.Interp(init, [('isinstance(_X, _T)', isinst), ('_X is None', lambda e, s, tr: (None if truth(e, s, tr) is None else not truth(e, s, tr))), ('_X is not None', truth),
                           ('not _X', lambda e, s, tr: (None if truth(e, s, tr) is None else not truth(e, s, tr))), ('_X', truth)],
                     [('self.id_generator = _V', store)], ignore=['self._A = _V'])
    it_.pure_calls = {'UUIDGenerator', 'dict', 'list'}
    for given in (False, 'idgen', 'other'):
        out_, tr_ = it_.run({'given': given})
        vals = [t[1] for t in tr_ if isinstance(t, tuple) and t[0] == 'store']
        v = _ai.strip0(vals[-1]) if vals else None
        stored[given] = v
    g = dotted(stored[False].func) if isinstance(stored[False], ast.Call) and not stored[False].args and not stored[False].keywords else None
    fresh = g is not None and g.split('.')[-1] == 'UUIDGenerator'
    defaults_ok = all(isinstance(d, ast.Constant) and d.value is None for d in init.args.defaults)
    r.check(fresh and defaults_ok, 'MetaModel() creates its own UUIDGenerator when none is given', init,
            construct='xtuml.meta:MetaModel.__init__', key='own-generator',
            msg='MetaModel.__init__ does not create a fresh generator per metamodel (shared default?)')
    for given, what in (('idgen', 'an IdGenerator'), ('other', 'any other generator object (iterator protocol)')):
        r.check(isinstance(stored[given], ast.Name) and stored[given].id == p, 'a given generator (%s) is stored on the metamodel' % what, init,
                construct='xtuml.meta:MetaModel.__init__', key='store-generator',
                msg='id_generator is not stored on the metamodel when %s is given (the code stores %s)' % (what, src(stored[given]) if stored[given] is not None else None))


def keep_defaults(ctx):
    """the loader creates the instance with MetaClass.new (defaults, fresh ids) and then stores the values of the statement; on the positional
    route whatever it stores must come from a value of the statement - a constant store wipes the default / the generated id of a column the
    statement does not mention"""
    repo = ctx.repo
    r = ctx.rule('C19-KEEP', 'the positional INSERT route stores only values of the statement over the defaults computed by new()', floor=1,
                 oracle='property statement: omitted arguments keep the default of their type')
    Q = 'xtuml.load:ModelLoader._populate_instance_with_positional_arguments'
    fn = repo.func(Q)
    n = 0
    for node in ast.walk(fn):
        val = None
        if isinstance(node, ast.Assign) and any(isinstance(t, ast.Subscript) and isinstance(t.value, ast.Attribute) and t.value.attr == '__dict__' for t in node.targets):
            val = node.value
        elif isinstance(node, ast.Call) and dotted(node.func) == 'setattr' and len(node.args) == 3:
            val = node.args[2]
        if val is None:
            continue
        n += 1
        v = val
        if isinstance(v, ast.Name):
            defs = [a.value for a in ast.walk(fn) if isinstance(a, ast.Assign) and any(isinstance(t, ast.Name) and t.id == v.id for t in a.targets)]
            from_stmt = bool(defs) and all(isinstance(d, ast.Call) and dotted(d.func).endswith('deserialize_value') for d in defs)
        else:
            from_stmt = isinstance(v, ast.Call) and dotted(v.func).endswith('deserialize_value')
        r.check(from_stmt, 'the stored value is the deserialised value of the statement', node, construct=Q, key='stored ' + src(val)[:30],
                msg='the positional INSERT route stores `%s`, which is not a deserialised value of the statement: the attribute loses the typed default '
                    '(or the fresh unique id) that MetaClass.new had given it' % src(val)[:60])
    if n < 1:
        raise AnalysisError('%s: no store of a value into the new instance found' % loc(fn))
