'''
C11 - The consistency check reports exactly the violations present.

  C11-PREDICATE   truth table of check_link_integrity over (partner count 0/1/>=2, conditional, many)
  C11-SUM         check_association_integrity counts both directed links of every admitted association;
                  both command line mains add every result, restricted/unrestricted runs are exclusive,
                  exit status is `errors > 0`
  C11-CONSISTENT  MetaModel.is_consistent is true exactly when both checks report zero
  C11-UNIQ        null test and duplicate test of check_uniqueness_constraint
  C11-SUBTYPE     check_subtype_integrity counts supertype instances without subtype
'''
import ast
import itertools

from ..src import qualname, AnalysisError, loc, src, dotted, call_attr, param_names, walk_local, body_without_doc
from .. import pm, absint
from .common import is_case_normalised, exception_class_name

Q = 'xtuml.consistency_check:'


def run(ctx):
    ctx.guard(predicate, ctx)
    ctx.guard(summing, ctx)
    ctx.guard(consistent, ctx)
    ctx.guard(uniq, ctx)
    ctx.guard(subtype, ctx)
    ctx.guard(accumulate, ctx)
    from . import c02 as _c02
    from .common import AssocModel as _AM
    ctx.shared(_c02.atomic, ctx, _AM(ctx.repo))    # a rejected relate leaves no half link behind for the consistency check to trip over
    ctx.shared(_c02.delete_rule, ctx)          # delete unlinks every partner, so that no counted partner is a deleted instance
    ctx.shared(_c02.linkops, ctx)              # the partner sets the check counts: connect / disconnect add and remove exactly the pair
    return ('Finite truth tables obtained by abstract execution of the source of check_link_integrity, '
            'check_association_integrity, check_subtype_integrity, MetaModel.is_consistent, the null predicate of '
            'check_uniqueness_constraint and the result-summing part of both consistency_check.main functions; '
            'structural rules for the duplicate map.  Decides that the predicates and sums are the specified ones '
            'for every model, not the count on a given model.')


def _len_atoms(getn):
    '''atoms for comparisons of len(<partner list>) with small integer constants; n in {0,1,2} where 2 means >= 2'''
    def mk(op):
        def f(e, s, tr):
            k = e['_K']
            if not (isinstance(k, ast.Constant) and isinstance(k.value, int)) or k.value > 2:
                return None
            n = getn(e, s)
            if n is None:
                return None
            return op(n, k.value)
        return f
    import operator as o
    out = []
    for sym, fn in (('<', o.lt), ('<=', o.le), ('>', o.gt), ('>=', o.ge), ('==', o.eq), ('!=', o.ne)):
        # abstraction check: n == 2 stands for "two or more"; comparisons against constants <= 2 stay exact except == 2 / != 2
        out.append(('len(_X) %s _K' % sym, mk(fn)))
    out.append(('not _X', lambda e, s, tr: (getn(e, s) == 0) if getn(e, s) is not None else None))
    out.append(('_X', lambda e, s, tr: (getn(e, s) > 0) if getn(e, s) is not None else None))
    return out


def predicate(ctx):
    repo = ctx.repo
    r = ctx.rule('C11-PREDICATE', 'check_link_integrity flags an instance iff its partner count is outside the end\'s '
                                  'multiplicity/conditionality', floor=12, oracle='property statement')
    fn = repo.func(Q + 'check_link_integrity')
    ps = param_names(fn)
    LINK = ps[1]
    navvars = {}

    def getn(e, s):
        x = e['_X']
        if isinstance(x, ast.Name) and x.id in navvars:
            return s['n']
        if pm.match('%s.navigate(_I)' % LINK, x) is not None or pm.match('list(%s.navigate(_I))' % LINK, x) is not None:
            return s['n']
        return None

    def nav_assign(e, s, tr):
        v = e['_V']
        m = pm.match('list(%s.navigate(_I))' % LINK, v) or pm.match('%s.navigate(_I)' % LINK, v) or \
            pm.match('xtuml.QuerySet(%s.navigate(_I))' % LINK, v)
        if m is None:
            return False
        i = m['_I']
        if not (isinstance(i, ast.Name) and s.get('env', {}).get(i.id) == 'inst'):
            tr.append(('wrong-nav', src(v)))
        navvars[e['_N'].id] = True
        return True

    def counter_init(e, s, tr):
        if isinstance(e['_V'], ast.Constant) and e['_V'].value == 0:
            s.setdefault('cnt', {})[e['_N'].id] = 0
            return True
        return False

    def counter_inc(e, s, tr):
        s['cnt'][e['_N'].id] = s['cnt'].get(e['_N'].id, 0) + 1
        return True

    atoms = _len_atoms(getn) + [('%s.conditional' % LINK, lambda e, s, tr: s['conditional']),
                                ('%s.many' % LINK, lambda e, s, tr: s['many'])]
    effects = [('_N = _V', nav_assign), ('_N = _V', counter_init), ('_N += 1', counter_inc)]
    iters = [('%s.from_metaclass.select_many()' % LINK, lambda e, s, tr: ['inst']),
             ('%s.from_metaclass.storage' % LINK, lambda e, s, tr: ['inst'])]
    it = absint.Interp(fn, atoms, effects, iters=iters)
    for n, cond, many in itertools.product([0, 1, 2], [False, True], [False, True]):
        st = {'n': n, 'conditional': cond, 'many': many}
        state = dict(st)
        out, tr = it.run(state)
        want = 1 if ((n == 0 and not cond) or (n >= 2 and not many)) else 0
        desc = 'check_link_integrity(partners=%s, conditional=%d, many=%d)' % ('>=2' if n == 2 else n, cond, many)
        got = None
        if out.kind == 'return' and isinstance(out.value, ast.Name):
            got = state.get('cnt', {}).get(out.value.id)
        r.check(got == want and not [t for t in tr if t[0] == 'wrong-nav'], '%s -> %d' % (desc, want), fn,
                construct=Q + 'check_link_integrity', key='predicate n=%s c=%d m=%d' % (n, cond, many),
                msg='%s must report %d violation(s); the code reports %s (%s)' % (desc, want, got, tr))


def summing(ctx):
    repo = ctx.repo
    r = ctx.rule('C11-SUM', 'association check sums both directed links; mains add every check result; exit status errors>0',
                 floor=14, oracle='property statement + sibling agreement of the two main functions')
    fn = repo.func(Q + 'check_association_integrity')
    ps = param_names(fn)
    REL = ps[1]

    def counter_init(e, s, tr):
        if isinstance(e['_V'], ast.Constant) and e['_V'].value == 0:
            s.setdefault('cnt', {})[e['_N'].id] = []
            return True
        return False

    def add_link(e, s, tr):
        # the summand may itself be a sum of checks
        terms, stack = [], [e['_V']]
        while stack:
            x = stack.pop()
            if isinstance(x, ast.BinOp) and isinstance(x.op, ast.Add):
                stack.extend([x.right, x.left])
            else:
                terms.append(x)
        found = []
        for t in terms:
            m = pm.match('check_link_integrity(_M, _A._F)', t)
            if m is None:
                return False
            a = m['_A']
            if not (isinstance(a, ast.Name) and s.get('env', {}).get(a.id) == 'ass'):
                return False
            found.append(m['_F'])
        if e['_N'].id not in s.get('cnt', {}):
            return False
        s['cnt'][e['_N'].id].extend(found)
        return True

    def norm_rel(e, s, tr):
        s['normalised'] = True
        return True

    atoms = [('isinstance(%s, int)' % REL, lambda e, s, tr: s['is_int']),
             ('%s in [_A.rel_id, None]' % REL, lambda e, s, tr: _rel_match(s)),
             ('%s in (_A.rel_id, None)' % REL, lambda e, s, tr: _rel_match(s)),
             ('%s is None' % REL, lambda e, s, tr: s['filter'] == 'none'),
             ('%s in _A.rel_id' % REL, lambda e, s, tr: s['filter'] in ('match', 'substr') and ((not s['is_int']) or s['normalised'])),
             ('_A.rel_id.startswith(%s)' % REL, lambda e, s, tr: s['filter'] in ('match', 'substr')),
             ('_A.rel_id.endswith(%s)' % REL, lambda e, s, tr: s['filter'] in ('match', 'substr')),
             ('%s == _A.rel_id' % REL, lambda e, s, tr: _rel_eq(s)),
             ('_A.rel_id == %s' % REL, lambda e, s, tr: _rel_eq(s)),
             ('%s != _A.rel_id' % REL, lambda e, s, tr: not _rel_eq(s)),
             ('_A.rel_id != %s' % REL, lambda e, s, tr: not _rel_eq(s))]
    effects = [('_N = _V', counter_init), ('_N += _V', add_link), ("%s = 'R%%d' %% %s" % (REL, REL), norm_rel)]
    iters = [('_M.associations', lambda e, s, tr: ['ass'])]
    it = absint.Interp(fn, atoms, effects, iters=iters)
    for filt, is_int in itertools.product(['none', 'match', 'nomatch', 'substr'], [False, True]):
        if filt == 'none' and is_int:
            continue
        state = {'filter': filt, 'is_int': is_int, 'normalised': False}
        out, tr = it.run(state)
        got = None
        if out.kind == 'return' and isinstance(out.value, ast.Name):
            got = sorted(state.get('cnt', {}).get(out.value.id, []))
        want = [] if filt in ('nomatch', 'substr') else ['source_link', 'target_link']
        desc = 'check_association_integrity(rel_id %s%s)' % ({'none': 'not given', 'match': 'equals the association\'s',
                                                            'nomatch': 'differs', 'substr': 'is a proper part of the association\'s (R1 vs R10)'}[filt],
                                                           ', as int' if is_int else '')
        r.check(got == want, '%s -> checks %s' % (desc, want), fn, construct=Q + 'check_association_integrity',
                key='sum %s %s' % (filt, is_int),
                msg='%s must add the results of %s; the code adds %s' % (desc, want or 'nothing', got))
    # ---- both main functions
    for modname in ('xtuml.consistency_check', 'bridgepoint.consistency_check'):
        _main_rule(ctx, r, modname)


def _rel_match(s):
    if s['filter'] == 'none':
        return True
    return _rel_eq(s)


def _rel_eq(s):
    if s['filter'] != 'match':
        return False
    # an integer rel id equals the association's 'R<n>' only after normalisation
    return (not s['is_int']) or s['normalised']


def _main_rule(ctx, r, modname):
    repo = ctx.repo
    fn = repo.func(modname + ':main')
    QQ = modname + ':main'
    body = body_without_doc(fn)
    start = None
    var = None
    for i, st in enumerate(body):
        m = pm.match('_E = 0', st)
        if m and isinstance(m['_E'], ast.Name):
            start, var = i, m['_E'].id
    if start is None:
        raise AnalysisError('%s: main has no `<errors> = 0` accumulator' % loc(fn))
    suffix = body[start:]

    def init(e, s, tr):
        s['sum'] = []
        return True

    def add(e, s, tr):
        v = e['_V']
        m = pm.match('xtuml.check_association_integrity(_M, _R)', v)
        if m and isinstance(m['_R'], ast.Constant) and m['_R'].value is None:
            s['sum'].append(('assoc', None))
            return True
        if m:
            s['sum'].append(('assoc', s.get('env', {}).get(getattr(m['_R'], 'id', None), '?' + src(m['_R']))))
            return True
        m = pm.match('xtuml.check_association_integrity(_M)', v)
        if m:
            s['sum'].append(('assoc', None))
            return True
        m = pm.match('xtuml.check_uniqueness_constraint(_M, _K)', v)
        if m and isinstance(m['_K'], ast.Constant) and m['_K'].value is None:
            s['sum'].append(('uniq', None))
            return True
        if m:
            s['sum'].append(('uniq', s.get('env', {}).get(getattr(m['_K'], 'id', None), '?' + src(m['_K']))))
            return True
        m = pm.match('xtuml.check_uniqueness_constraint(_M)', v)
        if m:
            s['sum'].append(('uniq', None))
            return True
        return False

    atoms = [('opts.rel_ids', lambda e, s, tr: bool(s['rels'])), ('opts.kinds', lambda e, s, tr: bool(s['kinds'])),
             ('len(opts.rel_ids) == 0', lambda e, s, tr: not s['rels']), ('len(opts.kinds) == 0', lambda e, s, tr: not s['kinds'])]
    def overwrite(e, s, tr):
        # <errors> = <check result>: what was counted before is lost
        saved = s.get('sum', [])
        s['sum'] = []
        if add(e, s, tr):
            return True
        s['sum'] = saved
        return False

    effects = [('%s = 0' % var, init), ('%s += _V' % var, add), ('%s = _V' % var, overwrite)]
    iters = [('opts.rel_ids', lambda e, s, tr: list(s['rels'])), ('opts.kinds', lambda e, s, tr: list(s['kinds']))]
    it = absint.Interp(fn, atoms, effects, iters=iters)
    it.skip = lambda st: isinstance(st, ast.Expr)
    for rels, kinds in itertools.product([[], ['r1', 'r2']], [[], ['k1', 'k2']]):
        state = {'rels': rels, 'kinds': kinds}
        out, tr = it.run(state, body=suffix)
        want = sorted([('assoc', x) for x in rels] or [('assoc', None)], key=str) + \
            sorted([('uniq', x) for x in kinds] or [('uniq', None)], key=str)
        got = sorted(state.get('sum', []), key=lambda t: (t[0], str(t[1])))
        want = sorted(want, key=lambda t: (t[0], str(t[1])))
        desc = '%s(-r %s, -k %s)' % (QQ, rels or 'absent', kinds or 'absent')
        ret_ok = out.kind == 'return' and isinstance(out.value, ast.Name) and out.value.id == var
        r.check(got == want and ret_ok, '%s sums %s' % (desc, want), fn, construct=QQ, key='main-sum %s %s' % (bool(rels), bool(kinds)),
                msg='%s must return the sum of exactly %s; the code sums %s and ends with %r' % (desc, want, got, out))
    # exit status
    mod = repo.module(modname)
    ok = False
    for st in mod.tree.body:
        if isinstance(st, ast.If) and pm.match("__name__ == '__main__'", st.test) is not None:
            v = None
            for s2 in st.body:
                m = pm.match('_V = main(_A)', s2)
                if m:
                    v = m['_V'].id
                for pat in ('sys.exit(%s > 0)', 'sys.exit(%s != 0)', 'sys.exit(bool(%s))', 'sys.exit(1 if %s else 0)',
                            'sys.exit(1 if %s > 0 else 0)', 'sys.exit(min(%s, 1))'):
                    if v and pm.match(pat % v, s2) is not None:
                        ok = True
    r.check(ok, '%s exits non-zero exactly when main() returned a positive count' % modname, mod.tree.body[-1],
            construct=modname + ':__main__', key='exit-status',
            msg='%s: the __main__ block does not exit with `main(...) > 0`' % modname)


def consistent(ctx):
    repo = ctx.repo
    r = ctx.rule('C11-CONSISTENT', 'MetaModel.is_consistent is true exactly when both checks are zero', floor=4,
                 oracle='property statement')
    fn = repo.func('xtuml.meta:MetaModel.is_consistent')

    def call_atom(e, s, tr):
        c = e['_C']
        name = (dotted(c.func) or '') if isinstance(c, ast.Call) else ''
        if name.endswith('check_association_integrity') and len(c.args) == 1 and src(c.args[0]) == 'self':
            return s['a']
        if name.endswith('check_uniqueness_constraint') and len(c.args) == 1 and src(c.args[0]) == 'self':
            return s['u']
        return None

    def val(e, s):
        v = call_atom({'_C': e}, s, None)
        return v

    atoms = [('_C == 0', lambda e, s, tr: (val(e['_C'], s) == 0) if val(e['_C'], s) is not None else None),
             ('_C != 0', lambda e, s, tr: (val(e['_C'], s) != 0) if val(e['_C'], s) is not None else None),
             ('_C > 0', lambda e, s, tr: (val(e['_C'], s) > 0) if val(e['_C'], s) is not None else None),
             ('_C', lambda e, s, tr: (val(e['_C'], s) != 0) if val(e['_C'], s) is not None else None)]
    it = absint.Interp(fn, atoms)
    for a, u in itertools.product([0, 3], repeat=2):
        state = {'a': a, 'u': u}
        out, tr = it.run(state)
        got = None
        if out.kind == 'return' and out.value is not None:
            got = it.cond(out.value, state, tr)
        want = (a == 0 and u == 0)
        desc = 'is_consistent(association violations=%d, identifier violations=%d)' % (a, u)
        r.check(got is want, '%s -> %s' % (desc, want), fn, construct='xtuml.meta:MetaModel.is_consistent',
                key='consistent %d %d' % (a, u), msg='%s must be %s; the code yields %s' % (desc, want, got))


def uniq(ctx):
    repo = ctx.repo
    r = ctx.rule('C11-UNIQ', 'uniqueness check: null predicate and duplicate map', floor=10, oracle='property statement')
    fn = repo.nfunc(Q + 'check_uniqueness_constraint')       # normal form: helpers inlined, loops that fill a dict are comprehensions
    QQ = Q + 'check_uniqueness_constraint'
    # locate the attribute loop (null test)
    attr_loop = None
    ident_loops = []
    inst_loop = None
    for lp in [n for n in ast.walk(fn) if isinstance(n, ast.For)]:
        if pm.match('_M.attributes', lp.iter) is not None:
            attr_loop = lp
        elif pm.match('_M.indices', lp.iter) is not None or pm.match('_M.indices.keys()', lp.iter) is not None:
            ident_loops.append(lp)
        elif pm.match('_M.select_many()', lp.iter) is not None or pm.match('_M.storage', lp.iter) is not None:
            inst_loop = lp
    if attr_loop is None or inst_loop is None or len(ident_loops) < 1:
        raise AnalysisError('%s: loops of check_uniqueness_constraint not recognised' % loc(fn))
    nm, ty = [e.id for e in attr_loop.target.elts]
    counter = None
    for st in fn.body:
        m = pm.match('_R = 0', st)
        if m:
            counter = m['_R'].id
    valvar = {}

    def val_assign(e, s, tr):
        m = pm.match('getattr(_I, %s)' % nm, e['_V'])
        if m is None:
            return False
        valvar[e['_N'].id] = True
        return True

    def v_of(e, s):
        x = e['_X']
        if isinstance(x, ast.Name) and x.id in valvar:
            return s['value']
        if pm.match('getattr(_I, %s)' % nm, x) is not None:
            return s['value']
        return None

    def ty_cmp(e, s, tr):
        a, b = e['_A'], e['_B']
        lit, other = (a, b) if isinstance(a, ast.Constant) else (b, a)
        if not (isinstance(lit, ast.Constant) and isinstance(lit.value, str)):
            return None
        if isinstance(other, ast.Name) and other.id == ty:
            return s['ty'] == lit.value
        if is_case_normalised(other) and isinstance(other.func.value, ast.Name) and other.func.value.id == ty:
            return getattr(s['ty'], other.func.attr)() == lit.value
        if isinstance(other, ast.Name) and other.id in s.get('tyvars', {}):
            return getattr(s['ty'], s['tyvars'][other.id])() == lit.value
        return None

    def ty_norm(e, s, tr):
        v = e['_V']
        if is_case_normalised(v) and isinstance(v.func.value, ast.Name) and v.func.value.id == ty:
            s.setdefault('tyvars', {})[e['_N'].id] = v.func.attr
            return True
        return False

    def inc(e, s, tr):
        s['count'] = s.get('count', 0) + 1
        return True

    once = {}
    for a_ in ast.walk(fn):
        if isinstance(a_, ast.Assign) and len(a_.targets) == 1 and isinstance(a_.targets[0], ast.Name):
            once.setdefault(a_.targets[0].id, []).append(a_.value)

    def container(c):
        '''which name set of the metaclass a membership test consults (through a local that was derived from it)'''
        while isinstance(c, ast.Name) and len(once.get(c.id, [])) == 1:
            c = once[c.id][0]
        t = src(c)
        for what in ('identifying', 'referential'):
            if '.%s_attributes' % what in t:
                return what, c
        return None, c

    def member(e, s, tr):
        if not any(isinstance(x, ast.Name) and x.id == nm for x in ast.walk(e['_X'])):
            return None
        what, _c = container(e['_C'])
        return s[what] if what else None
    # the attribute names of a class (CREATE TABLE / define_class) and those of its identifiers (CREATE UNIQUE INDEX /
    # define_unique_identifier) are spelled by two different callers; names are case insensitive, so the membership test that decides
    # whether an attribute is identifying compares them under one case normaliser
    for t_ in [n for n in ast.walk(attr_loop) if isinstance(n, ast.Compare) and len(n.ops) == 1 and isinstance(n.ops[0], (ast.In, ast.NotIn))]:
        what, c_ = container(t_.comparators[0])
        if what != 'identifying' or not any(isinstance(x, ast.Name) and x.id == nm for x in ast.walk(t_.left)):
            continue
        left_norm = t_.left.func.attr if is_case_normalised(t_.left) else None
        right_norms = set(x.func.attr for x in ast.walk(c_) if is_case_normalised(x))
        r.check(left_norm is not None and right_norms == {left_norm}, 'identifying attributes are recognised independent of letter case', t_,
                construct=QQ, key='identifying-name-case',
                msg='the null scan decides whether `%s` is identifying with `%s`: the attribute is spelled as the class declares it, the identifier as '
                    'CREATE UNIQUE INDEX / define_unique_identifier spelled it, and names are case insensitive - with another spelling the attribute is '
                    'skipped and its null values are not counted' % (nm, src(t_)))
    atoms = [('_X not in _C', lambda e, s, tr: (None if member(e, s, tr) is None else not member(e, s, tr))),
             ('_X in _C', member),
             ('_X is None', lambda e, s, tr: (v_of(e, s) == 'none') if v_of(e, s) else None),
             ('_X is not None', lambda e, s, tr: (v_of(e, s) != 'none') if v_of(e, s) else None),
             ('_X != 0', lambda e, s, tr: (v_of(e, s) != 'zero') if v_of(e, s) else None),
             ('_A != _B', lambda e, s, tr: (None if ty_cmp(e, s, tr) is None else not ty_cmp(e, s, tr))),
             ('not _X', lambda e, s, tr: (v_of(e, s) in ('none', 'zero')) if v_of(e, s) else None),
             ('_X == 0', lambda e, s, tr: (v_of(e, s) == 'zero') if v_of(e, s) else None),
             ('_A == _B', ty_cmp),
             ('_X', lambda e, s, tr: (v_of(e, s) == 'nonzero') if v_of(e, s) else None)]
    effects = [('_N = _V', val_assign), ('_N = _V', ty_norm), ('_C += 1', inc)]
    it = absint.Interp(fn, atoms, effects)
    for identifying, value, tyname, referential in itertools.product([True, False], ['none', 'zero', 'nonzero'],
                                                                     ['UNIQUE_ID', 'unique_id', 'Unique_Id', 'INTEGER', 'STRING'], [False, True]):
        # (an identifying attribute may be referential as well - the identifier of a subtype or of an association class: an instance that is
        #  not related then has a null identifier, which is exactly what the property wants reported)
        state = {'identifying': identifying, 'value': value, 'ty': tyname, 'referential': referential}
        try:
            out, tr = it.run(state, body=attr_loop.body)
        except absint._Continue:
            out = None
        want = 1 if identifying and (value == 'none' or (value == 'zero' and tyname.upper() == 'UNIQUE_ID')) else 0
        got = state.get('count', 0)
        desc = 'null test(identifying=%d, value=%s, type=%s%s)' % (identifying, value, tyname, ', referential' if referential else '')
        r.check(got == want, '%s -> %d' % (desc, want), attr_loop, construct=QQ,
                key='null %s %s %s%s' % (identifying, value, tyname.upper() == tyname, ' referential' if referential else ''),
                msg='%s must count %d null identifying value(s); the code counts %d -- the type name is compared without '
                    'case normalisation' % (desc, want, got) if tyname.upper() == 'UNIQUE_ID' and value == 'zero'
                else '%s must count %d; the code counts %d' % (desc, want, got))
    # duplicate map: abstract execution of the whole function on two tiny models
    import re as _re
    KP = param_names(fn)[1]
    M = param_names(fn)[0]

    def sym(n):
        return absint.Sym(ast.Name(id=n, ctx=ast.Load()))

    def generalise(e):
        return _re.sub(r'\b(I|MC)\d\b', r'\1', src(e))

    def run_model(classes, dup):
        '''classes: {metaclass: [instances]}; all instances carry equal identifier values when dup, distinct ones otherwise'''
        def mcs(e, s, tr):
            return [sym(c) for c in sorted(classes)]

        def insts(e, s, tr):
            c = src(e['_M'])
            return [sym(i) for i in classes.get(c, [])] if c in classes else None

        def idents(e, s, tr):
            return [sym('ID')] if src(e['_M']) in classes else None

        def id_attrs(e, s, tr):
            return [sym('a1'), sym('a2')] if src(e['_M']) in classes else None

        def no_attrs(e, s, tr):
            return [] if src(e['_M']) in classes else None

        def new_map(e, s, tr):
            v = e['_V']
            def empty(x):
                return (isinstance(x, ast.Dict) and not x.keys) or (isinstance(x, ast.Call) and isinstance(x.func, ast.Name) and
                                                                    x.func.id == 'dict' and not x.args and not x.keywords)
            fresh = empty(v) or (isinstance(v, ast.DictComp) and empty(v.value))
            if not fresh:
                return False
            s.setdefault('maps', {})[e['_D'].id] = []
            return True

        def init_slot(e, s, tr):
            return isinstance(e['_D'], ast.Name) and e['_D'].id in s.get('maps', {})

        def store(e, s, tr):
            d = e['_D']
            if not (isinstance(d, ast.Name) and d.id in s.get('maps', {})):
                return False
            s['maps'][d.id].append((src(e['_ID']), generalise(e['_K']), src(e['_I'])))
            tr.append(('key', generalise(e['_K'])))
            return True

        def seen(e, s, tr):
            d = e['_D']
            if not (isinstance(d, ast.Name) and d.id in s.get('maps', {})):
                return None
            k = generalise(e['_K'])
            tr.append(('probe', k))
            return dup and any(sid == src(e['_ID']) and sk == k for sid, sk, si in s['maps'][d.id])

        def inc(e, s, tr):
            s.setdefault('counters', {})[e['_C'].id] = s.get('counters', {}).get(e['_C'].id, 0) + 1
            return True

        def zero(e, s, tr):
            if isinstance(e['_V'], ast.Constant) and e['_V'].value == 0 and not isinstance(e['_V'].value, bool):
                s.setdefault('counters', {})[e['_C'].id] = 0
                return True
            return False

        def addc(e, s, tr):
            x = e['_X']
            if isinstance(x, ast.Constant) and isinstance(x.value, int) and not isinstance(x.value, bool) and isinstance(e['_C'], ast.Name):
                s.setdefault('counters', {})[e['_C'].id] = s.get('counters', {}).get(e['_C'].id, 0) + x.value
                return True
            if isinstance(x, ast.Name) and x.id in s.get('counters', {}) and isinstance(e['_C'], ast.Name):
                s['counters'][e['_C'].id] = s['counters'].get(e['_C'].id, 0) + s['counters'][x.id]
                return True
            return False
        it2 = absint.Interp(fn, [('%s is None' % KP, lambda e, s, tr: True), ('_K in _D[_ID]', seen),
                                 ('_K not in _D[_ID]', lambda e, s, tr: (None if seen(e, s, tr) is None else not seen(e, s, tr)))],
                            [('_D = _V', new_map), ('_D[_X] = {}', init_slot), ('_D[_X] = dict()', init_slot),
                             ('_D[_ID][_K] = _I', store), ('_C = _V', zero), ('_C += 1', inc), ('_C += _X', addc)],
                            iters=[('%s.metaclasses.values()' % M, mcs), ('_M.select_many()', insts), ('_M.storage', insts),
                                   ('_M.indices', idents), ('_M.indices.keys()', idents), ('_M.indices[_ID]', id_attrs),
                                   ('_M.attributes', no_attrs)])
        it2.pure_calls = {'pretty_unique_identifier', 'frozenset'}
        state = {}
        out, tr = it2.run(state)
        total = state.get('counters', {}).get(out.value.id) if (out.kind == 'return' and isinstance(out.value, ast.Name)) else None
        return total, out, tr
    key_shape = None
    for classes, dup, want, what in (({'MC1': ['I1', 'I2']}, True, 1, 'two instances of one class with equal identifier values'),
                                     ({'MC1': ['I1', 'I2']}, False, 0, 'two instances of one class with different identifier values'),
                                     ({'MC1': ['I1'], 'MC2': ['I2']}, True, 0, 'instances of two classes with equal identifier values'),
                                     ({'MC1': ['I1', 'I2', 'I3']}, True, 2, 'three instances of one class with equal identifier values')):
        got, out, tr = run_model(classes, dup)
        r.check(got == want, '%s: %d violation(s)' % (what, want), fn, construct=QQ, key='dup %s' % what,
                msg='%s must count %d uniqueness violation(s); the code counts %d (the identifier map must be kept per class and every '
                    'instance key must be recorded after its test)' % (what, want, got))
        keys_ = set(t[1] for t in tr if t[0] in ('key', 'probe'))
        if keys_:
            key_shape = keys_
    # the key covers every attribute of the identifier with the values of the instance
    ok_key = bool(key_shape) and len(key_shape) == 1
    if ok_key:
        k = ast.parse(next(iter(key_shape))).body[0].value
        ok_key = pm.contains('{_N: getattr(I, _N) for _N in MC.indices[ID]}', k) or pm.contains('dict(((_N, getattr(I, _N)) for _N in MC.indices[ID]))', k)
    r.check(ok_key, 'the key ranges over all attributes of the identifier with the instance\'s values; probe and record use the same key', fn,
            construct=QQ, key='dup-key', msg='the duplicate key is not built from getattr(inst, name) for every name in indices[identifier] '
                                             '(key expressions: %s)' % sorted(key_shape or []))
    # the restriction to one kind
    kp = param_names(fn)[1]
    ok = False
    for node, env in pm.find('if %s is None:\n    _V = _M.metaclasses.values()\nelse:\n    _V = [_M.find_metaclass(%s)]' % (kp, kp), fn):
        ok = True
    for node, env in pm.find('if %s is not None:\n    _V = [_M.find_metaclass(%s)]\nelse:\n    _V = _M.metaclasses.values()' % (kp, kp), fn):
        ok = True
    for n_ in ast.walk(fn):
        if isinstance(n_, ast.IfExp) and (
                pm.match('_M.metaclasses.values() if %s is None else [_M.find_metaclass(%s)]' % (kp, kp), n_) is not None or
                pm.match('[_M.find_metaclass(%s)] if %s is not None else _M.metaclasses.values()' % (kp, kp), n_) is not None or
                pm.match('[_M.find_metaclass(%s)] if %s else _M.metaclasses.values()' % (kp, kp), n_) is not None):
            ok = True
    r.check(ok, 'restriction: all metaclasses when no kind is given, exactly the named one otherwise', fn, construct=QQ,
            key='kind-filter', msg='the kind restriction is not `all metaclasses if kind is None else [find_metaclass(kind)]`')
    rets = [n for n in ast.walk(fn) if isinstance(n, ast.Return)]
    r.check(len(rets) == 1 and pm.match(counter, rets[0].value) is not None, 'the accumulated count is returned', fn,
            construct=QQ, key='return', msg='check_uniqueness_constraint does not return its counter')


def accumulate(ctx):
    '''the sets the checks read (identifying / referential attributes, indices) are only ever extended after construction'''
    repo = ctx.repo
    r = ctx.rule('C11-ACCUM', 'identifying / referential attribute sets and identifier tables are only extended, never replaced', floor=3,
                 oracle='check_uniqueness_constraint tests every attribute of every identifier of the class')
    for modname in ('xtuml.meta', 'xtuml.load', 'bridgepoint.ooaofooa'):
        for fn_ in [n for n in ast.walk(repo.module(modname).tree) if isinstance(n, ast.FunctionDef)]:
            for n in ast.walk(fn_):
                if isinstance(n, (ast.Assign, ast.AugAssign)):
                    tg = n.targets if isinstance(n, ast.Assign) else [n.target]
                    for t in tg:
                        if isinstance(t, ast.Attribute) and t.attr in ('identifying_attributes', 'referential_attributes', 'indices'):
                            q = qualname(n)
                            ctor = fn_.name == '__init__' and src(t.value) == 'self'
                            grows = isinstance(n, ast.AugAssign) and isinstance(n.op, ast.BitOr)
                            r.check(ctor or grows, '%s: %s is %s' % (q, src(t), 'created empty' if ctor else 'extended'), n, construct=q,
                                    key='replace ' + t.attr,
                                    msg='%s replaces %s (`%s`): what earlier definitions (other identifiers / associations of the class) put there is '
                                        'lost, so the consistency check no longer looks at those attributes' % (q, src(t), src(n)[:70]))


def subtype(ctx):
    repo = ctx.repo
    r = ctx.rule('C11-SUBTYPE', 'check_subtype_integrity counts supertype instances lacking a subtype instance', floor=2,
                 oracle='property statement')
    fn = repo.func(Q + 'check_subtype_integrity')
    ps = param_names(fn)

    def init(e, s, tr):
        if isinstance(e['_V'], ast.Constant) and e['_V'].value == 0:
            s.setdefault('cnt', {})[e['_N'].id] = 0
            return True
        return False

    def inc(e, s, tr):
        s['cnt'][e['_N'].id] += 1
        return True

    atoms = [('isinstance(%s, int)' % ps[2], lambda e, s, tr: False),
             ('xtuml.navigate_subtype(_I, %s)' % ps[2], lambda e, s, tr: s['has']),
             ('xtuml.navigate_subtype(_I, %s) is None' % ps[2], lambda e, s, tr: not s['has'])]
    iters = [('%s.select_many(%s)' % (ps[0], ps[1]), lambda e, s, tr: ['inst'])]
    it = absint.Interp(fn, atoms, [('_N = _V', init), ('_N += 1', inc)], iters=iters)
    for has in (False, True):
        state = {'has': has}
        out, tr = it.run(state)
        got = state.get('cnt', {}).get(out.value.id) if out.kind == 'return' and isinstance(out.value, ast.Name) else None
        want = 0 if has else 1
        r.check(got == want, 'supertype instance %s subtype -> %d' % ('with' if has else 'without', want), fn,
                construct=Q + 'check_subtype_integrity', key='subtype %s' % has,
                msg='a supertype instance %s a subtype instance must count %d; the code counts %s'
                    % ('with' if has else 'without', want, got))
