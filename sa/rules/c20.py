'''
C20 - XSD generation mirrors the component's classes and data types.

  C20-KINDS       navigation chains of gen_xsd_schema.py conform to the schema
  C20-DISPATCH    the data type kinds that get a name are exactly those that get a declaration; core type table
  C20-ENUM-ORDER  enumerators (R56) and structure members (R46) are emitted along the modelled succession
  C20-SCOPE       classes and types use the same containment predicate for the same component
  C20-ATTR        attribute name / type mapping and derived-attribute filter
  C20-XML         markup is built through ElementTree only and serialised by ET.tostring
'''
import ast

from ..src import AnalysisError, loc, src, dotted, call_attr, param_names, body_without_doc
from .. import pm
from . import kindrules, chain

XSD = 'bridgepoint.gen_xsd_schema'
CORE = {'boolean': 'xs:boolean', 'integer': 'xs:integer', 'real': 'xs:decimal', 'string': 'xs:string', 'unique_id': 'xs:integer'}


def run(ctx):
    repo = ctx.repo
    ki = kindrules.infer(repo, XSD)
    ctx.guard(kindrules.kinds_rule, ctx, 'C20-KINDS', XSD, 20, ki)
    ctx.guard(dispatch, ctx)
    ctx.guard(enum_order, ctx)
    ctx.guard(scope, ctx)
    ctx.guard(attr, ctx)
    ctx.guard(xml, ctx)
    from . import scope as _scope
    ctx.guard(_scope.containment, ctx, 'C20-CONTAIN')
    ctx.guard(emission_loops, ctx)
    ctx.guard(stateless, ctx)
    ctx.guard(component_choice, ctx)
    from . import c02 as _c02, c09 as _c09
    from .common import AssocModel as _AM
    ctx.shared(_c02.atomic, ctx, _AM(ctx.repo))    # a rejected edit (relate / unrelate) leaves the model, hence the regenerated schema, unchanged
    ctx.shared(_c09.nav, ctx)                      # containment and every declaration are found by navigation (also across association classes)
    ctx.assume('completeness of the generated schema against a concrete model is not decided')
    return ('Schema type-check of gen_xsd_schema navigations; agreement of get_type_name / build_type / build_core_type '
            'dispatch tables; succession-order reader rule on R56/R46; scope predicates; attribute mapping patterns; '
            'who-builds-markup scan (ElementTree only).')


def _kinds_tested(fn, p, call_pat):
    '''kinds K for which fn has   x = nav_one(p).K[17]() ; if x...: return <call_pat>'''
    out = {}
    body = body_without_doc(fn)
    for i, st in enumerate(body):
        m = pm.match('_V = nav_one(%s)._K[17]()' % p, st)
        if m and i + 1 < len(body) and isinstance(body[i + 1], ast.If):
            nxt = body[i + 1]
            v = m['_V'].id
            t = src(nxt.test)
            if t == v or t.startswith(v + ' and '):
                rets = [x for x in nxt.body if isinstance(x, ast.Return)]
                if rets:
                    out[m['_K']] = (src(rets[0].value), t)
    return out


def dispatch(ctx):
    repo = ctx.repo
    r = ctx.rule('C20-DISPATCH', 'named data type kinds = declared data type kinds; core type table', floor=10,
                 oracle='sibling agreement get_type_name <-> build_type; property statement (core, enumeration, user types)')
    gtn = repo.func(XSD + ':get_type_name')
    bt = repo.func(XSD + ':build_type')
    from .. import absint as _ai

    def subtype_table(fn):
        '''{state: returned expression} for the data type being a core type (in / out of the named range), an enumeration, a user type,
        a structured type'''
        P_ = param_names(fn, skip_self=False)[0]

        def kind_of(x):
            m = pm.match('nav_one(%s)._K[17]()' % P_, x) or pm.match('one(%s)._K[17]()' % P_, x)
            if m:
                return m['_K']
            m = pm.match('getattr(nav_one(%s), _K)[17]()' % P_, x) or pm.match('getattr(one(%s), _K)[17]()' % P_, x)
            if m and isinstance(m['_K'], ast.Constant):
                return m['_K'].value
            return None

        def truthy(e, s, tr):
            k = kind_of(e['_X'])
            return None if k is None else (k == s['kind'])

        def in_range(e, s, tr):
            k = kind_of(e['_X'])
            if k is None:
                return None
            return s['in_range']
        it_ = _ai.Interp(fn, [('_X.Core_Typ in range(1, 6)', in_range), ('_X.Core_Typ in (1, 2, 3, 4, 5)', in_range),
                              ('1 <= _X.Core_Typ <= 5', in_range), ('1 <= _X.Core_Typ < 6', in_range),
                              ('_X is not None', truthy), ('_X is None', lambda e, s, tr: (None if truthy(e, s, tr) is None else not truthy(e, s, tr))),
                              ('_X', truthy)])
        it_.pure_calls = {'build_core_type', 'build_enum_type', 'build_user_type', 'build_struct_type'}
        out_ = {}
        for kind, in_range_ in (('S_CDT', True), ('S_CDT', False), ('S_EDT', True), ('S_UDT', True), ('S_SDT', True)):
            o, tr = it_.run({'kind': kind, 'in_range': in_range_})
            v = o.value if o.kind == 'return' else None
            if isinstance(v, ast.Constant) and v.value is None:
                v = None
            out_[(kind, in_range_)] = v
        return out_
    nt = subtype_table(gtn)
    btab = subtype_table(bt)
    named = dict((k, (src(v), '')) for (k, rng), v in nt.items() if v is not None and rng)
    built = dict((k, (src(v), '')) for (k, rng), v in btab.items() if v is not None and rng)
    want = {'S_CDT', 'S_EDT', 'S_UDT'}
    r.check(set(named) == want, 'get_type_name names core, enumeration and user types', gtn, construct=XSD + ':get_type_name', key='named',
            msg='get_type_name yields a name for %s; the property lists core, enumeration and user-defined types' % sorted(named))
    r.check(set(built) == set(named), 'build_type declares exactly the kinds that get_type_name names', bt, construct=XSD + ':build_type', key='built',
            msg='build_type declares %s but get_type_name names %s: an attribute could be typed by a simple type that is never emitted'
                % (sorted(built), sorted(named)))
    for k, (ret, test) in named.items():
        r.check(ret in ('s_dt.Name', 's_dt.name'), 'get_type_name(%s) is the modelled type name' % k, gtn, construct=XSD + ':get_type_name', key='name ' + k,
                msg='get_type_name returns %s for %s' % (ret, k))
    for k, b in (('S_CDT', 'build_core_type'), ('S_EDT', 'build_enum_type'), ('S_UDT', 'build_user_type')):
        if k in built:
            r.check(built[k][0].startswith(b + '('), '%s is declared by %s' % (k, b), bt, construct=XSD + ':build_type', key='builder ' + k,
                    msg='build_type declares %s with %s' % (k, built[k][0]))
    if 'S_CDT' in named:
        r.check(nt[('S_CDT', False)] is None, 'only core types 1..5 are named', gtn, construct=XSD + ':get_type_name', key='core-range',
                msg='get_type_name no longer restricts core types to Core_Typ in range(1, 6)')
    bc = repo.func(XSD + ':build_core_type')
    from .. import absint

    def name_eq(e, s, tr):
        a_, b_ = e['_A'], e['_B']
        lit, other = (a_, b_) if isinstance(a_, ast.Constant) else (b_, a_)
        if isinstance(lit, ast.Constant) and isinstance(lit.value, str) and src(other) in ('s_dt.name', 's_dt.Name'):
            return s['name'] == lit.value
        return None

    def name_in(e, s, tr):
        if src(e['_A']) in ('s_dt.name', 's_dt.Name') and isinstance(e['_L'], (ast.Tuple, ast.List, ast.Set)) and \
                all(isinstance(x, ast.Constant) for x in e['_L'].elts):
            return s['name'] in [x.value for x in e['_L'].elts]
        return None

    def element(e, s, tr):
        s.setdefault('env', {})[e['_M'].id] = 'element'
        tr.append(('element', src(e['_T']), src(e['_N'])))
        return True

    def restriction(e, s, tr):
        b_ = e['_B']
        tr.append(('base', b_.value if isinstance(b_, ast.Constant) else src(b_), src(e['_P'])))
        return True
    it = absint.Interp(bc, [('_A == _B', name_eq), ('_A in _L', name_in)],
                       [('_M = ET.Element(_T, name=_N)', element), ("ET.SubElement(_P, 'xs:restriction', base=_B)", restriction),
                        ('s_dt = nav_one(_X).S_DT[17]()', lambda e, s, tr: True), ('s_dt = one(_X).S_DT[17]()', lambda e, s, tr: True)])
    it.key_equals = lambda k, kn, s: (s['name'] == kn.value) if (src(k) in ('s_dt.name', 's_dt.Name') and isinstance(kn, ast.Constant)) else None
    for name, xs in sorted(CORE.items()) + [('void', None), ('something_else', None)]:
        state = {'name': name}
        out, tr = it.run(state)
        bases = [t[1] for t in tr if t[0] == 'base']
        elems = [t for t in tr if t[0] == 'element']
        returned = out.kind == 'return' and out.value is not None and not (isinstance(out.value, ast.Constant) and out.value.value is None)
        if xs is not None:
            ok = returned and bases == [xs] and len(elems) == 1 and elems[0][1] == "'xs:simpleType'" and elems[0][2] in ('s_dt.name', 's_dt.Name') \
                and isinstance(out.value, ast.Name) and state.get('env', {}).get(out.value.id) == 'element'
            r.check(ok, 'core type %s -> <xs:simpleType name=...><xs:restriction base=%s>' % (name, xs), bc, construct=XSD + ':build_core_type',
                    key='core ' + name, msg='build_core_type maps %s to %s (elements %s, result %r), expected a simpleType restriction of %s'
                                            % (name, bases, elems, out, xs))
        else:
            r.check(not returned and not bases, '%s has no declaration' % name, bc, construct=XSD + ':build_core_type', key='core ' + name,
                    msg='build_core_type declares a type for %s (%s)' % (name, bases))
    # value flow in the normal form: what reaches name= of the simpleType and base= of its restriction
    from .common import resolve_locals
    bu = repo.nfunc(XSD + ':build_user_type')
    UP = param_names(bu, skip_self=False)[0]
    names_, bases_ = [], []
    for c_ in [n for n in ast.walk(bu) if isinstance(n, ast.Call) and dotted(n.func) in ('ET.Element', 'ET.SubElement')]:
        for k_ in c_.keywords:
            if k_.arg == 'name':
                names_.append(src(resolve_locals(bu, k_.value, pure_only=False)))
            if k_.arg == 'base':
                bases_.append(src(resolve_locals(bu, k_.value, pure_only=False)))
    want_name = ['nav_one(%s).S_DT[17]().name' % UP]
    want_base = ['get_type_name(nav_one(%s).S_DT[18]())' % UP]
    loops_ = [n for n in ast.walk(bu) if isinstance(n, (ast.While, ast.For))]
    r.check([x.replace('.Name', '.name') for x in names_] == want_name and bases_ == want_base and not loops_,
            'a user type restricts the name of its IMMEDIATE base type (R18), named by its own S_DT (R17)', bu, construct=XSD + ':build_user_type', key='user',
            msg='build_user_type declares name=%s base=%s%s; expected name=%s over R17 and base=%s: the type name of the immediate base over R18 (a '
                'type stacked on another user type restricts THAT type, not its core type)' % (names_, bases_, ' inside a loop' if loops_ else '', want_name[0], want_base[0]))


def enum_order(ctx):
    repo = ctx.repo
    r = ctx.rule('C20-ENUM-ORDER', 'enumerators and members are emitted along their succession association', floor=4,
                 oracle='CHAIN-DIR on R56 (Previous_Enum_ID) and R46 (Previous_Member_ID)')
    for fn_name, rel, coll in (('build_enum_type', 56, 'S_ENUM[27]'), ('build_struct_type', 46, 'S_MBR[44]')):
        fn = repo.func(XSD + ':' + fn_name)
        sites = chain.reader_sites(fn, rel)
        if len(sites) < 2:
            r.violation('%s does not walk R%d: the elements are emitted in link order, not in modelled order' % (fn_name, rel), fn,
                        construct=XSD + ':' + fn_name, key='no-chain R%d' % rel)
            continue
        for s in sites:
            chain.check_reader(ctx, r, s, XSD + ':' + fn_name)
        # the declaration is returned whatever the number of enumerators / members: every return hands back the element that was created
        made = [a.targets[0].id for a in ast.walk(fn) if isinstance(a, ast.Assign) and len(a.targets) == 1 and isinstance(a.targets[0], ast.Name) and
                isinstance(a.value, ast.Call) and dotted(a.value.func) == 'ET.Element']
        rets = [n for n in ast.walk(fn) if isinstance(n, ast.Return)]
        bad = [n for n in rets if not (isinstance(n.value, ast.Name) and n.value.id in made)]
        r.check(bool(rets) and not bad, '%s returns the declared type on every path' % fn_name, bad[0] if bad else fn, construct=XSD + ':' + fn_name,
                key='always-declared', msg='%s has a path that returns `%s` instead of the element it declares: an enumeration without enumerators (a '
                                           'structure without members) gets no type, and attributes typed by it refer to an undeclared type' % (
                                               fn_name, src(bad[0].value) if bad and bad[0].value is not None else 'nothing'))
    fn = repo.func(XSD + ':build_enum_type')
    ok = any(isinstance(n, ast.While) and pm.contains("ET.SubElement(enum_list, 'xs:enumeration', value=s_enum.name)", n) for n in ast.walk(fn))
    r.check(ok, 'one xs:enumeration per enumerator, valued by its name', fn, construct=XSD + ':build_enum_type', key='emit',
            msg='build_enum_type does not emit <xs:enumeration value=name> for each enumerator of the chain')


def scope(ctx):
    repo = ctx.repo
    r = ctx.rule('C20-SCOPE', 'classes and data types are selected by containment in the same component', floor=4, oracle='property statement')
    bs = repo.func(XSD + ':build_schema')
    bcmp = repo.func(XSD + ':build_component')
    lam_s = {src(n.body) for n in ast.walk(bs) if isinstance(n, ast.Lambda)}
    lam_c = {src(n.body) for n in ast.walk(bcmp) if isinstance(n, ast.Lambda)}
    r.check('ooaofooa.is_contained_in(selected, c_c)' in lam_c, 'classes: contained in the component', bcmp, construct=XSD + ':build_component', key='class-scope',
            msg='build_component does not select classes with is_contained_in(selected, c_c)')
    r.check('ooaofooa.is_contained_in(selected, c_c)' in lam_s and 'ooaofooa.is_global(selected)' in lam_s,
            'data types: global ones plus those contained in the component', bs, construct=XSD + ':build_schema', key='type-scope',
            msg='build_schema does not select data types with is_global(...) and is_contained_in(selected, c_c)')
    r.check(pm.contains('_C = build_component(m, c_c)', bs) and pm.contains('schema.append(_C)', bs), 'the component element is appended to the schema', bs,
            construct=XSD + ':build_schema', key='component', msg='build_schema does not append build_component(m, c_c)')
    for kind, fn, builder in (('S_DT', bs, 'build_type'), ('O_OBJ', bcmp, 'build_class')):
        ok = any(isinstance(n, ast.For) and src(n.iter).startswith("m.select_many('%s'," % kind) and
                 any(isinstance(c, ast.Call) and dotted(c.func) == builder for c in ast.walk(n)) for n in ast.walk(fn))
        r.check(ok, 'every %s in scope goes through %s' % (kind, builder), fn, construct=XSD + ':' + fn.name, key='each ' + kind,
                msg='%s does not apply %s to every selected %s' % (fn.name, builder, kind))
    from . import scope as _scope
    _scope.globality(r, repo)


def stateless(ctx):
    '''every generation reads the model afresh: the builders keep nothing between calls (no memoising decorator, no mutable default
    argument, no module-level container they write to, no global statement) -- otherwise an edited model regenerates the old schema'''
    repo = ctx.repo
    r = ctx.rule('C20-FRESH', 'the schema builders keep no state between generations', floor=12,
                 oracle='property statement (editing the model changes exactly the corresponding declarations)')
    mod = repo.module(XSD)
    module_containers = {t.id for st in mod.tree.body if isinstance(st, ast.Assign) for t in st.targets if isinstance(t, ast.Name) and
                         (isinstance(st.value, (ast.Dict, ast.List, ast.Set)) or
                          (isinstance(st.value, ast.Call) and dotted(st.value.func) in ('dict', 'list', 'set', 'collections.defaultdict', 'collections.OrderedDict')))}
    for fn in [n for n in mod.tree.body if isinstance(n, ast.FunctionDef)]:
        q = XSD + ':' + fn.name
        decs = [src(d) for d in fn.decorator_list]
        r.check(not decs, '%s is a plain function (no caching / wrapping decorator)' % fn.name, fn, construct=q, key='decorator',
                msg='%s is decorated with %s: a memoised builder returns the element it built for an earlier generation, so edits to the model '
                    '(new enumerators, renamed or retyped data types) do not reach the regenerated schema' % (q, ', '.join(decs)))
        muts = [d for d in list(fn.args.defaults) + [x for x in fn.args.kw_defaults if x is not None]
                if isinstance(d, (ast.Dict, ast.List, ast.Set)) or (isinstance(d, ast.Call) and dotted(d.func) in ('dict', 'list', 'set'))]
        r.check(not muts, '%s has no mutable default argument' % fn.name, fn, construct=q, key='mutable-default',
                msg='%s has the mutable default `%s`, which survives between generations' % (q, src(muts[0]) if muts else ''))
        glob = [n for n in ast.walk(fn) if isinstance(n, (ast.Global, ast.Nonlocal))]
        writes = [n for n in ast.walk(fn) if (isinstance(n, ast.Subscript) and isinstance(n.ctx, (ast.Store, ast.Del)) and isinstance(n.value, ast.Name) and
                                              n.value.id in module_containers) or
                  (isinstance(n, ast.Call) and isinstance(n.func, ast.Attribute) and isinstance(n.func.value, ast.Name) and n.func.value.id in module_containers and
                   n.func.attr in ('append', 'add', 'update', 'setdefault', 'extend', 'insert', 'pop', 'clear', 'remove'))]
        r.check(not glob and not writes, '%s writes no module-level state' % fn.name, fn, construct=q, key='module-state',
                msg='%s writes module-level state (%s): it survives between generations' % (q, src((glob + writes)[0]) if (glob or writes) else ''))


def emission_loops(ctx):
    '''no loop over a selection of model elements ends early: every selected element is declared (or skipped individually)'''
    repo = ctx.repo
    r = ctx.rule('C20-LOOPS', 'loops over selected model elements visit every element', floor=4, oracle='property statement (each class / type of the component)')
    for name in ('build_schema', 'build_component', 'build_class', 'build_enum_type', 'build_struct_type'):
        fn = repo.func(XSD + ':' + name, required=False)
        if fn is None:
            continue
        for lp in [n for n in ast.walk(fn) if isinstance(n, ast.For)]:
            early = [x for x in ast.walk(lp) if isinstance(x, (ast.Break, ast.Return)) and not any(
                isinstance(p_, (ast.FunctionDef, ast.Lambda)) and p_ is not fn for p_ in _parents(x, lp))]
            r.check(not early, '%s: the loop over `%s` runs to its end' % (name, src(lp.iter)[:60]), lp, construct=XSD + ':' + name,
                    key='early-exit ' + src(lp.iter)[:40],
                    msg='%s leaves the loop over `%s` early (%s): the elements after the first one that triggers it are silently missing from '
                        'the schema' % (name, src(lp.iter)[:60], type(early[0]).__name__.lower() if early else ''))


def _parents(x, stop):
    cur = getattr(x, '_parent', None)
    while cur is not None and cur is not stop:
        yield cur
        cur = getattr(cur, '_parent', None)


def attr(ctx):
    repo = ctx.repo
    r = ctx.rule('C20-ATTR', 'attributes are declared with their modelled name and the base type of the referred attribute', floor=5,
                 oracle='property statement')
    bc = repo.func(XSD + ':build_class')
    Q = XSD + ':build_class'
    lp = [n for n in ast.walk(bc) if isinstance(n, ast.For)]
    ok = len(lp) == 1 and pm.match('nav_many(o_obj).O_ATTR[102]()', lp[0].iter) is not None
    r.check(ok, 'all attributes of the class (R102) are visited', bc, construct=Q, key='iter', msg='build_class does not iterate nav_many(o_obj).O_ATTR[102]()')
    # abstract execution of the attribute loop: the attribute's type is a chain of L user types over a base type
    from .. import absint
    import itertools

    def val(x, s):
        return s.get('env', {}).get(x.id) if isinstance(x, ast.Name) else None

    def set_(e, s, v):
        s.setdefault('env', {})[e['_V'].id] = v
        return True

    def from_attr(e, s, tr):
        x = e['_X']
        ok_ref = pm.match('get_refered_attribute(o_attr)', x) is not None or (isinstance(x, ast.Name) and val(x, s) == 'referred')
        tr.append(('typed-by', 'referred' if ok_ref else src(x)))
        return set_(e, s, ('dt', 0))

    def referred(e, s, tr):
        return set_(e, s, 'referred')

    def udt_of(e, s, tr):
        v = val(e['_X'], s)
        if not (isinstance(v, tuple) and v[0] == 'dt'):
            return False
        return set_(e, s, ('udt', v[1]) if v[1] < s['L'] else None)

    def base_of_udt(e, s, tr):
        v = val(e['_X'], s)
        if not (isinstance(v, tuple) and v[0] == 'udt'):
            return False
        return set_(e, s, ('dt', v[1] + 1))

    def base_of_dt(e, s, tr):
        v = val(e['_X'], s)
        if not (isinstance(v, tuple) and v[0] == 'dt') or v[1] >= s['L']:
            return False
        return set_(e, s, ('dt', v[1] + 1))

    def is_udt(e, s, tr):
        v = val(e['_X'], s)
        if isinstance(v, tuple) and v[0] == 'dt':
            return v[1] < s['L']
        return None

    def truthy(e, s, tr):
        x = e['_X']
        if isinstance(x, ast.Name) and x.id in s.get('env', {}):
            v = s['env'][x.id]
            if v == 'type_name':
                return s['supported']
            return v is not None
        return None

    def named(e, s, tr):
        v = val(e['_X'], s)
        tr.append(('named', v))
        return set_(e, s, 'type_name')

    def declare(e, s, tr):
        tr.append(('declare', src(e['_N']), val(e['_T'], s)))
        return True
    atoms = [('nav_one(_X).S_UDT[17]()', is_udt), ('one(_X).S_UDT[17]()', is_udt),
             ('nav_one(_X).S_UDT[17].S_DT[18]()', is_udt), ('one(_X).S_UDT[17].S_DT[18]()', is_udt),
             ('nav_one(o_attr).O_BATTR[106].O_DBATTR[107]()', lambda e, s, tr: s['derived']),
             ('one(o_attr).O_BATTR[106].O_DBATTR[107]()', lambda e, s, tr: s['derived']), ('_X', truthy)]
    effects = [('_V = get_refered_attribute(o_attr)', referred),
               ('_V = nav_one(_X).S_DT[114]()', from_attr), ('_V = one(_X).S_DT[114]()', from_attr),
               ('_V = nav_one(_X).S_UDT[17].S_DT[18]()', base_of_dt), ('_V = one(_X).S_UDT[17].S_DT[18]()', base_of_dt),
               ('_V = nav_one(_X).S_UDT[17]()', udt_of), ('_V = one(_X).S_UDT[17]()', udt_of),
               ('_V = nav_one(_X).S_DT[18]()', base_of_udt), ('_V = one(_X).S_DT[18]()', base_of_udt),
               ('_V = get_type_name(_X)', named),
               ("ET.SubElement(attributes, 'xs:attribute', name=_N, type=_T)", declare),
               ("_V = ET.Element(__, name=__, minOccurs='0', maxOccurs='unbounded')", lambda e, s, tr: True),
               ("_V = ET.SubElement(__, 'xs:complexType')", lambda e, s, tr: True), ("_V = ET.SubElement(__, 'xs:sequence')", lambda e, s, tr: True)]
    it = absint.Interp(bc, atoms, effects, iters=[('nav_many(o_obj).O_ATTR[102]()', lambda e, s, tr: ['attr']),
                                                   ('many(o_obj).O_ATTR[102]()', lambda e, s, tr: ['attr'])])
    it.skip = lambda st: isinstance(st, ast.Assign) and isinstance(st.value, ast.Call) and (dotted(st.value.func) or '').startswith('ET.') or \
        (isinstance(st, ast.Expr) and isinstance(st.value, ast.Call) and (dotted(st.value.func) or '').startswith('ET.')
         and "'xs:attribute'" not in src(st))
    for L, supported, derived in itertools.product([0, 1, 2], [True, False], [True, False]):
        state = {'L': L, 'supported': supported, 'derived': derived}
        out, tr = it.run(state)
        namedv = [t[1] for t in tr if t[0] == 'named']
        typed = [t[1] for t in tr if t[0] == 'typed-by']
        decl = [t for t in tr if t[0] == 'declare']
        desc = 'attribute typed by %d user type(s) over a %s base type, %s' % (L, 'supported' if supported else 'unsupported', 'derived' if derived else 'not derived')
        r.check(typed == ['referred'], desc + ': the type is taken from the referred base attribute (R114)', bc, construct=Q, key='referred',
                msg='build_class types an attribute by %s, not by the S_DT (R114) of get_refered_attribute(o_attr)' % typed)
        r.check(namedv == [('dt', L)], desc + ': user types are unwrapped to their base type before it is named', bc, construct=Q, key='unwrap',
                msg='%s: build_class names the type %s; it must unwrap the S_UDT chain (R17/R18) down to the base type %s' % (desc, namedv, ('dt', L)))
        want = [('declare', 'o_attr.name', 'type_name')] if (supported and not derived) else []
        r.check([tuple(d) for d in decl] == want or ([(d[0], d[1].replace('.Name', '.name'), d[2]) for d in decl] == want),
                desc + ': %s' % ('declared as xs:attribute name/type' if want else 'omitted'), bc, construct=Q, key='declare',
                msg='%s: build_class emits %s; an attribute is declared (name=o_attr.name, type=<base type name>) exactly when its type is '
                    'supported and it is not derived' % (desc, decl))
    r.check(pm.contains("_C = ET.Element('xs:element', name=o_obj.key_lett, minOccurs='0', maxOccurs='unbounded')", bc),
            'one element per class, named by its key letters', bc, construct=Q, key='element', msg='build_class does not create <xs:element name=key_lett>')
    gr = repo.func(XSD + ':get_refered_attribute')
    ok = pm.match(['_R = nav_one(o_attr).O_RATTR[106].O_BATTR[113].O_ATTR[106]()',
                   'if _R:\n    return get_refered_attribute(_R)\nelse:\n    return o_attr'], body_without_doc(gr)) is not None
    r.check(ok, 'get_refered_attribute follows R106/R113 to the base attribute', gr, construct=XSD + ':get_refered_attribute', key='follow',
            msg='get_refered_attribute no longer follows referential attributes to their base attribute')


def xml(ctx):
    repo = ctx.repo
    r = ctx.rule('C20-XML', 'markup is produced through ElementTree only', floor=3, oracle='well-formedness by construction')
    mod = repo.module(XSD)
    n_build = 0
    for n in ast.walk(mod.tree):
        if isinstance(n, ast.Call) and dotted(n.func) in ('ET.Element', 'ET.SubElement'):
            n_build += 1
        if isinstance(n, ast.Constant) and isinstance(n.value, str) and ('<xs:' in n.value or '</' in n.value):
            r.violation('markup is written as text: %r' % n.value[:40], n, construct=XSD, key='text-markup')
    r.check(n_build >= 10, '%d ElementTree construction sites' % n_build, mod.tree.body[0], construct=XSD, key='et-sites',
            msg='only %d ElementTree construction sites left' % n_build)
    mn = repo.func(XSD + ':main')
    from .common import resolve_locals
    mnn = repo.nfunc(XSD + ':main')
    written = [resolve_locals(mnn, n.args[0], pure_only=False) for n in ast.walk(mnn)
               if isinstance(n, ast.Call) and isinstance(n.func, ast.Attribute) and n.func.attr == 'write' and len(n.args) == 1]
    ok = bool(written) and all(any(isinstance(c, ast.Call) and dotted(c.func) == 'ET.tostring' and c.args and
                                   pm.match('build_schema(_M, _C)', c.args[0]) is not None for c in ast.walk(w)) for w in written)
    r.check(ok, 'what main writes is the ET.tostring serialisation of the schema tree', mn, construct=XSD + ':main', key='tostring',
            msg='main does not serialise the schema with ET.tostring')
    bs = repo.func(XSD + ':build_schema')
    r.check(pm.contains("schema.set('xmlns:xs', 'http://www.w3.org/2001/XMLSchema')", bs), 'the xs namespace is declared on the root', bs,
            construct=XSD + ':build_schema', key='xmlns', msg='build_schema does not declare xmlns:xs on the root element')


def component_choice(ctx):
    """the schema is generated `for a component`: the command line names it, and the component whose Name is exactly that text is the one
    handed to build_schema (model element names are case- and space-sensitive: Comp and comp are two components)"""
    repo = ctx.repo
    r = ctx.rule('C20-COMPONENT', 'main() picks the component whose Name equals the -c argument exactly', floor=1,
                 oracle='property statement: the schema mirrors THE component; BridgePoint names are case sensitive')
    Q = XSD + ':main'
    fn = repo.func(Q)
    sels = [n for n in ast.walk(fn) if isinstance(n, ast.Call) and isinstance(n.func, ast.Attribute) and n.func.attr in ('select_any', 'select_one')
            and n.args and isinstance(n.args[0], ast.Constant) and n.args[0].value == 'C_C']
    if not sels:
        raise AnalysisError('%s: main() no longer selects a C_C instance' % loc(fn))
    once = {}
    for a in ast.walk(fn):
        if isinstance(a, ast.Assign) and len(a.targets) == 1 and isinstance(a.targets[0], ast.Name):
            once.setdefault(a.targets[0].id, []).append(a.value)

    def resolve(e):
        while isinstance(e, ast.Name) and len(once.get(e.id, [])) == 1:
            e = once[e.id][0]
        return e
    for c in sels:
        preds = c.args[1:]
        ok, why = False, 'no filter on the name'
        for p_ in preds:
            p_ = resolve(p_)
            if isinstance(p_, ast.Lambda) and isinstance(p_.body, ast.Compare) and len(p_.body.ops) == 1 and isinstance(p_.body.ops[0], ast.Eq):
                a, b = resolve(p_.body.left), resolve(p_.body.comparators[0])
                par = p_.args.args[0].arg if p_.args.args else None
                sides = sorted([src(a), src(b)])
                ok = sides == sorted(['%s.Name' % par, 'opts.component'])
                why = 'it compares `%s` with `%s`' % (src(a), src(b))
            elif isinstance(p_, ast.Call) and dotted(p_.func) in ('where_eq', 'xtuml.where_eq', 'where') and len(p_.keywords) == 1 and p_.keywords[0].arg == 'Name':
                ok = src(resolve(p_.keywords[0].value)) == 'opts.component'
                why = 'it filters on Name=%s' % src(resolve(p_.keywords[0].value))
            elif isinstance(p_, ast.Dict) and len(p_.keys) == 1 and isinstance(p_.keys[0], ast.Constant) and p_.keys[0].value == 'Name':
                ok = src(resolve(p_.values[0])) == 'opts.component'
                why = 'it filters on Name=%s' % src(resolve(p_.values[0]))
            else:
                why = 'the filter `%s` is not an equality on Name' % src(p_)[:60]
        r.check(ok, 'the component is chosen by Name == opts.component', c, construct=Q, key='component-by-name',
                msg='main() chooses the component with `%s`: %s, not the exact equality of its Name with the -c argument; with two components whose '
                    'names differ only in what the comparison ignores, the schema of the wrong component is written' % (src(c)[:90], why))
