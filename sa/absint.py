'''
Engine `absint`: deterministic abstract execution of one small function over
a FINITE abstract state.  The rule supplies

  * atoms   : pattern -> callable(env, state) -> bool   (how a condition atom
              reads the abstract state); boolean structure (and/or/not,
              chained conditions) is interpreted here;
  * effects : pattern -> callable(env, state, trace)     (how a recognised
              statement changes the abstract state / is recorded);

and then enumerates every abstract state.  For each state the walk follows
exactly one path through the function's statements (branch outcomes are
decided by the atoms), so the result is a total table
      abstract input state -> (outcome, recorded effects)
which is compared with the specification table of the property.  An atom or
a state-relevant statement that is not recognised raises AnalysisError
(exit 2) -- never a guess, never a violation.

Nothing of the analysed code is executed: conditions are evaluated on the
abstract state by the callables of the rule.
'''
import ast

from .src import AnalysisError, loc, src
from . import pm


class Outcome(object):
    def __init__(self, kind, node=None, value=None):
        self.kind = kind      # 'return' | 'raise' | 'falloff'
        self.node = node
        self.value = value    # ast of returned / raised expr (or None)

    def __repr__(self):
        return '%s(%s)' % (self.kind, src(self.value) if self.value is not None else '')


class _Break(Exception):
    pass


class _Continue(Exception):
    pass


class _Done(Exception):
    def __init__(self, outcome):
        self.outcome = outcome


class Interp(object):
    def __init__(self, fn, atoms, effects=(), ignore=(), iters=(), max_loop=4):
        self.fn = fn
        self.atoms = list(atoms)
        self.effects = list(effects)
        self.ignore = list(ignore)
        self.bool_vars = True
        self.skip = None           # optional predicate: statements for which skip(st) is true are not interpreted
        self.iters = list(iters)   # (pattern on the iterable, callable(env, state, trace) -> list of abstract elements)
        self.max_loop = max_loop

    def bind(self, target, element, state):
        '''bind loop target names to an abstract element: state['env'][name] = element'''
        env = state.setdefault('env', {})
        if isinstance(target, ast.Name):
            env[target.id] = element
        elif isinstance(target, (ast.Tuple, ast.List)):
            for i, t in enumerate(target.elts):
                if isinstance(t, ast.Name):
                    env[t.id] = (element, i) if i else element
        else:
            raise AnalysisError('%s: loop target `%s` not understood' % (loc(target), src(target)))

    # -- conditions ----------------------------------------------------------
    def cond(self, node, state, trace):
        if isinstance(node, ast.BoolOp):
            if isinstance(node.op, ast.And):
                for v in node.values:
                    if not self.cond(v, state, trace):
                        return False
                return True
            for v in node.values:
                if self.cond(v, state, trace):
                    return True
            return False
        if isinstance(node, ast.UnaryOp) and isinstance(node.op, ast.Not):
            return not self.cond(node.operand, state, trace)
        if isinstance(node, ast.Constant) and isinstance(node.value, bool):
            return node.value
        if isinstance(node, ast.Compare) and len(node.ops) > 1:
            # a < b < c  ->  a < b and b < c
            left = node.left
            for op, right in zip(node.ops, node.comparators):
                part = ast.Compare(left=left, ops=[op], comparators=[right])
                if not self.cond(part, state, trace):
                    return False
                left = right
            return True
        if isinstance(node, ast.Name) and node.id in state.get('bvars', {}):
            return state['bvars'][node.id]
        for pattern, fn in self.atoms:
            env = pm.match(pattern, node)
            if env is not None:
                r = fn(env, state, trace)
                if r is not None:
                    return bool(r)
        raise AnalysisError('%s: condition atom `%s` in %s is outside the idioms the abstract '
                            'interpreter knows' % (loc(node), src(node), self.fn.name))

    # -- statements ----------------------------------------------------------
    def _bool_assign(self, st, state, trace):
        '''NAME = <condition> / NAME |= <condition> / NAME &= <condition> on boolean flags'''
        if not self.bool_vars:
            return False
        if isinstance(st, ast.Assign) and len(st.targets) == 1 and isinstance(st.targets[0], ast.Name):
            name, op, value = st.targets[0].id, None, st.value
        elif isinstance(st, ast.AugAssign) and isinstance(st.target, ast.Name) and \
                isinstance(st.op, (ast.BitOr, ast.BitAnd)):
            name, op, value = st.target.id, st.op, st.value
        else:
            return False
        looks_boolean = isinstance(value, (ast.Compare, ast.BoolOp)) or \
            (isinstance(value, ast.UnaryOp) and isinstance(value.op, ast.Not)) or \
            (isinstance(value, ast.Constant) and isinstance(value.value, bool))
        if not looks_boolean:
            return False
        v = self.cond(value, state, trace)
        bv = state.setdefault('bvars', {})
        if op is None:
            bv[name] = v
        elif isinstance(op, ast.BitOr):
            bv[name] = bv.get(name, False) or v
        else:
            bv[name] = bv.get(name, False) and v
        return True

    def _effect(self, st, state, trace):
        if self._bool_assign(st, state, trace):
            return True
        for pattern, fn in self.effects:
            env = pm.match(pattern, st)
            if env is not None:
                r = fn(env, state, trace)
                if r is not False:
                    return True
        for pattern in self.ignore:
            if pm.match(pattern, st) is not None:
                return True
        return False

    def block(self, stmts, state, trace):
        for st in stmts:
            self.stmt(st, state, trace)

    def stmt(self, st, state, trace):
        if isinstance(st, ast.If):
            if self.cond(st.test, state, trace):
                self.block(st.body, state, trace)
            else:
                self.block(st.orelse, state, trace)
            return
        if isinstance(st, ast.Return):
            if st.value is not None:
                self._effect(ast.Expr(value=st.value), state, trace)
            raise _Done(Outcome('return', st, st.value))
        if isinstance(st, ast.Raise):
            raise _Done(Outcome('raise', st, st.exc))
        if isinstance(st, ast.Pass):
            return
        if isinstance(st, ast.Expr) and isinstance(st.value, ast.Constant):
            return   # docstring
        if isinstance(st, ast.While):
            n = 0
            while self.cond(st.test, state, trace):
                n += 1
                if n > self.max_loop:
                    raise AnalysisError('%s: loop does not terminate on the abstract state' % loc(st))
                try:
                    self.block(st.body, state, trace)
                except _Break:
                    break
                except _Continue:
                    continue
            return
        if isinstance(st, ast.For):
            elems = None
            for pattern, fn in self.iters:
                env = pm.match(pattern, st.iter)
                if env is not None:
                    elems = fn(env, state, trace)
                    if elems is not None:
                        break
            if elems is None:
                raise AnalysisError('%s: iterable `%s` in %s is outside the idioms the abstract interpreter '
                                    'knows' % (loc(st), src(st.iter), self.fn.name))
            broke = False
            for el in elems:
                self.bind(st.target, el, state)
                try:
                    self.block(st.body, state, trace)
                except _Break:
                    broke = True
                    break
                except _Continue:
                    continue
            if not broke:
                self.block(st.orelse, state, trace)
            return
        if isinstance(st, ast.Break):
            raise _Break()
        if isinstance(st, ast.Continue):
            raise _Continue()
        if self._effect(st, state, trace):
            return
        if isinstance(st, ast.Expr) and isinstance(st.value, ast.Call):
            # a call whose result is discarded: evaluate it as an atom for its recorded effect
            for pattern, fn in self.atoms:
                env = pm.match(pattern, st.value)
                if env is not None and fn(env, state, trace) is not None:
                    return
        if self.skip is not None and self.skip(st):
            return
        if is_logging_stmt(st):
            return
        raise AnalysisError('%s: statement `%s` in %s is outside the idioms the abstract '
                            'interpreter knows' % (loc(st), src(st).split('\n')[0], self.fn.name))

    def run(self, state, body=None):
        trace = []
        body = body if body is not None else self.fn.body
        try:
            self.block(body, state, trace)
        except _Done as d:
            return d.outcome, trace
        return Outcome('falloff', self.fn, None), trace


def is_logging_stmt(st):
    '''logger.xxx(...) / print(...) statements have no effect on model state'''
    if isinstance(st, ast.Expr) and isinstance(st.value, ast.Call):
        f = st.value.func
        if isinstance(f, ast.Attribute) and isinstance(f.value, ast.Name) and f.value.id in ('logger', 'logging'):
            return True
        if isinstance(f, ast.Name) and f.id == 'print':
            return True
    return False


def const_value(node):
    '''constant value of a returned expr; raises AnalysisError otherwise'''
    if node is None:
        return None
    if isinstance(node, ast.Constant):
        return node.value
    if isinstance(node, ast.UnaryOp) and isinstance(node.op, ast.USub) and isinstance(node.operand, ast.Constant):
        return -node.operand.value
    raise AnalysisError('%s: expected a constant, found `%s`' % (loc(node), src(node)))
