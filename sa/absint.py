'''
Engine `absint`: deterministic abstract execution of one small function over
a FINITE abstract state.  The rule supplies

  * atoms   : pattern -> callable(env, state) -> bool   (how a condition atom
              reads the abstract state); boolean structure (and/or/not,
              chained conditions) is interpreted here;
  * effects : pattern -> callable(env, state, trace)     (how a recognised
              statement changes the abstract state / is recorded);

and then enumerates every abstract state.  For each state the walk follows
exactly one path through the function's statements (branch outcomes are
decided by the atoms), so the result is a total table
      abstract input state -> (outcome, recorded effects)
which is compared with the specification table of the property.  An atom or
a state-relevant statement that is not recognised raises AnalysisError
(exit 2) -- never a guess, never a violation.

Nothing of the analysed code is executed: conditions are evaluated on the
abstract state by the callables of the rule.
'''
import ast

import copy

from .src import AnalysisError, loc, src
from . import pm
from . import normal


EXCEPTION_BASES = {}   # exception class name -> names of its base classes (set by the driver from the analysed tree)
REPO = None      # set by the driver: lets every interpreter resolve calls of helpers that are not in the reference inventory


def default_helpers(fn):
    repo = REPO
    if repo is None:
        return None
    from . import equiv
    try:
        inv = equiv.inventory()
    except Exception:
        return None
    mod = getattr(fn, '_module', None)
    if mod is None:
        return None
    parent = getattr(fn, '_parent', None)
    cls = parent if isinstance(parent, ast.ClassDef) else None

    def resolve(call):
        f = call.func
        if isinstance(f, ast.Name):
            for n in mod.tree.body:
                if isinstance(n, ast.FunctionDef) and n.name == f.id and ('%s:%s' % (mod.name, n.name)) not in inv and n is not fn:
                    return n
        elif isinstance(f, ast.Attribute) and isinstance(f.value, ast.Name) and f.value.id in ('self', 'cls') and cls is not None:
            for n in cls.body:
                if isinstance(n, ast.FunctionDef) and n.name == f.attr and ('%s:%s.%s' % (mod.name, cls.name, n.name)) not in inv and n is not fn:
                    n._is_method = True
                    return n
        return None
    return resolve


class Sym(object):
    '''a loop element given symbolically: an ast expression or a (nested) tuple of ast expressions'''
    def __init__(self, value):
        self.value = value


class Outcome(object):
    def __init__(self, kind, node=None, value=None):
        self.kind = kind      # 'return' | 'raise' | 'falloff'
        self.node = node
        self.value = value    # ast of returned / raised expr (or None)

    def __repr__(self):
        return '%s(%s)' % (self.kind, src(self.value) if self.value is not None else '')


class _Break(Exception):
    pass


class _Continue(Exception):
    pass


class Raised(Exception):
    '''raised by an atom / effect of a rule: in this abstract state the recognised operation throws the named exception'''
    def __init__(self, exc_name, node=None):
        Exception.__init__(self, exc_name)
        self.exc_name = exc_name
        self.node = node


class _Done(Exception):
    def __init__(self, outcome):
        self.outcome = outcome


class Interp(object):
    def __init__(self, fn, atoms, effects=(), ignore=(), iters=(), max_loop=4):
        self.fn = fn
        self.atoms = list(atoms)
        self.effects = list(effects)
        self.ignore = list(ignore)
        self.bool_vars = True
        self.skip = None           # optional predicate: statements for which skip(st) is true are not interpreted
        self.iters = list(iters)   # (pattern on the iterable, callable(env, state, trace) -> list of abstract elements)
        self.max_loop = max_loop
        self.symbolic = True       # unrecognised `name = <pure expr>` is kept as a symbolic binding and substituted on use
        self.helpers = default_helpers(fn)   # callable(call) -> FunctionDef of a newly introduced helper to interpret in place
        self.depth = 0
        self.rewrite = None        # optional callable(expr, state) -> expr applied to every substituted expression (rule-specific folding)
        self.key_equals = None     # optional callable(key expr, constant key node, state) -> bool | None: decides {..}[K] / {..}.get(K)
        self.pure_calls = set()    # names of calls the rule declares free of effects (kept symbolically)

    # -- symbolic locals -------------------------------------------------------
    def subst(self, node, state):
        senv = state.get('senv') or {}
        consts = self.constants()
        uses_const = bool(consts) and any((isinstance(n, ast.Name) and ('', n.id) in consts and n.id not in senv) or
                                          (isinstance(n, ast.Attribute) and isinstance(n.value, ast.Name) and (n.value.id, n.attr) in consts)
                                          for n in ast.walk(node))
        foldable = self.rewrite is not None or (self.key_equals is not None and any(isinstance(n, ast.Dict) for n in ast.walk(node))) or \
            any(isinstance(n, ast.Call) and isinstance(n.func, ast.Lambda) for n in ast.walk(node))
        if not uses_const and not foldable and (not senv or not any(isinstance(n, ast.Name) and n.id in senv for n in ast.walk(node))):
            return node
        new = normal._Subst(dict(senv)).visit(normal.clone(node))
        if uses_const:
            locals_ = self._local_names()

            class C(ast.NodeTransformer):
                def visit_Attribute(s2, n):
                    if isinstance(n.value, ast.Name) and (n.value.id, n.attr) in consts and isinstance(n.ctx, ast.Load):
                        return normal.clone(consts[(n.value.id, n.attr)])
                    return s2.generic_visit(n)

                def visit_Name(s2, n):
                    if isinstance(n.ctx, ast.Load) and ('', n.id) in consts and n.id not in locals_:
                        return normal.clone(consts[('', n.id)])
                    return n
            new = C().visit(new)
        if self.key_equals is not None:
            new = self._fold_lookups(new, state)
        new = _beta(new)
        if self.rewrite is not None:
            new = self.rewrite(new, state)
        for n in ast.walk(new):
            if not hasattr(n, 'lineno') and isinstance(n, (ast.expr, ast.stmt)):
                ast.copy_location(n, node)
            if hasattr(node, '_module'):
                n._module = node._module
        return new

    def _fold_lookups(self, node, state):
        me = self

        class F(ast.NodeTransformer):
            def generic_visit(s2, n):
                n = super(F, s2).generic_visit(n)
                if isinstance(n, (ast.Subscript, ast.Call)):
                    found, sel = dict_lookup(n, lambda k, kn: me.key_equals(k, kn, state))
                    if found and sel is not None:
                        return sel
                if isinstance(n, ast.Compare) and len(n.ops) == 1 and isinstance(n.ops[0], (ast.In, ast.NotIn)) and \
                        isinstance(n.comparators[0], ast.Dict) and all(k is not None for k in n.comparators[0].keys):
                    hits = [me.key_equals(n.left, kn, state) for kn in n.comparators[0].keys]
                    if all(h is not None for h in hits):
                        val = any(hits) if isinstance(n.ops[0], ast.In) else not any(hits)
                        return ast.copy_location(ast.Constant(value=val), n)
                return n
        return F().visit(node)

    def constants(self):
        '''literal tables the function can see: module-level NAME = <literal> and, in a method, class-level NAME = <literal>
        reached as self.NAME / cls.NAME / <Class>.NAME (only when nothing in the module re-binds or mutates them)'''
        if getattr(self, '_consts', None) is not None:
            return self._consts
        out = {}
        mod = getattr(self.fn, '_module', None)
        if mod is not None:
            def literal(v):
                # a display of constants, names (of functions / classes), attribute chains and lambdas: a static table
                if not isinstance(v, (ast.Dict, ast.Tuple, ast.List, ast.Set, ast.Constant)):
                    return False
                for x in ast.walk(v):
                    if isinstance(x, (ast.Call, ast.Subscript, ast.BinOp, ast.ListComp, ast.DictComp, ast.SetComp, ast.GeneratorExp, ast.Starred)):
                        if not any(isinstance(p_, ast.Lambda) and any(y is x for y in ast.walk(p_)) for p_ in ast.walk(v)):
                            return False
                return True

            def touched(name):
                for n in ast.walk(mod.tree):
                    if isinstance(n, (ast.Assign, ast.AugAssign, ast.Delete)):
                        tg = n.targets if hasattr(n, 'targets') else [n.target]
                        for t in tg:
                            for x in ast.walk(t):
                                if isinstance(x, ast.Subscript) and ((isinstance(x.value, ast.Name) and x.value.id == name) or
                                                                     (isinstance(x.value, ast.Attribute) and x.value.attr == name)):
                                    return True
                    if isinstance(n, ast.Call) and isinstance(n.func, ast.Attribute) and n.func.attr in (
                            'append', 'add', 'update', 'pop', 'clear', 'setdefault', 'remove', 'extend', 'insert', 'popitem') and \
                            ((isinstance(n.func.value, ast.Name) and n.func.value.id == name) or
                             (isinstance(n.func.value, ast.Attribute) and n.func.value.attr == name)):
                        return True
                return False
            counts = {}
            for n in mod.tree.body:
                if isinstance(n, ast.Assign) and len(n.targets) == 1 and isinstance(n.targets[0], ast.Name):
                    counts[n.targets[0].id] = counts.get(n.targets[0].id, 0) + 1
            for n in mod.tree.body:
                if isinstance(n, ast.Assign) and len(n.targets) == 1 and isinstance(n.targets[0], ast.Name) and literal(n.value) \
                        and isinstance(n.value, (ast.Dict, ast.Tuple, ast.List, ast.Set)) \
                        and counts[n.targets[0].id] == 1 and not touched(n.targets[0].id):
                    out[('', n.targets[0].id)] = n.value
            cls = getattr(self.fn, '_parent', None)
            if isinstance(cls, ast.ClassDef):
                for n in cls.body:
                    if isinstance(n, ast.Assign) and len(n.targets) == 1 and isinstance(n.targets[0], ast.Name) and literal(n.value) \
                            and isinstance(n.value, (ast.Dict, ast.Tuple, ast.List, ast.Set)) and not touched(n.targets[0].id) \
                            and not any(isinstance(x, ast.Attribute) and x.attr == n.targets[0].id and isinstance(x.ctx, (ast.Store, ast.Del))
                                        for x in ast.walk(mod.tree)):
                        for recv in ('self', 'cls', cls.name):
                            out[(recv, n.targets[0].id)] = n.value
        self._consts = out
        return out

    def _is_function_name(self, name):
        mod = getattr(self.fn, '_module', None)
        if mod is None or name in self._local_names():
            return False
        return any(isinstance(n, (ast.FunctionDef, ast.ClassDef)) and n.name == name for n in mod.tree.body)

    def _local_names(self):
        if getattr(self, '_locals', None) is None:
            self._locals = {n.id for n in ast.walk(self.fn) if isinstance(n, ast.Name) and isinstance(n.ctx, ast.Store)} | \
                {a.arg for a in ast.walk(self.fn) if isinstance(a, ast.arg)}
        return self._locals

    def expand_comprehension(self, comp, state, trace):
        '''[elt for target in iter if cond ...] -> the list of elt expressions, one per abstract element of the iterable (the rule's
        `iters` say what the elements are); None when an iterable or a filter is not understood'''
        out = []

        def rec(k, st_):
            if k == len(comp.generators):
                out.append(self.subst(comp.elt, st_))
                return True
            g = comp.generators[k]
            it = self.subst(g.iter, st_)
            elems = None
            for cand in ([g.iter] if it is g.iter else [it, g.iter]):
                for pattern, fn in self.iters:
                    env = pm.match(pattern, cand)
                    if env is not None:
                        elems = fn(env, st_, trace)
                        if elems is not None:
                            break
                if elems is not None:
                    break
            if elems is None:
                return False
            for el in elems:
                st2 = dict(st_, senv=dict(st_.get('senv', {})), env=dict(st_.get('env', {})))
                self.bind(g.target, el, st2)
                if all(self.cond(c, st2, trace) for c in g.ifs):
                    if not rec(k + 1, st2):
                        return False
            return True
        return out if rec(0, state) else None

    def _comprehension_truths(self, comp, state, trace, stop_at=None):
        '''truth of the element expression of a comprehension for every abstract element (bound in a state of its own); None when
        an iterable is not understood'''
        out = []

        def rec(k, st_):
            if k == len(comp.generators):
                if stop_at is not None and out and out[-1] is stop_at:
                    return True        # any() / all() stop at the first deciding element: later ones are not evaluated
                out.append(bool(self.cond(comp.elt, st_, trace)))
                return True
            g = comp.generators[k]
            it = self.subst(g.iter, st_) if self.symbolic else g.iter
            elems = None
            for cand in ([g.iter] if it is g.iter else [it, g.iter]):
                for pattern, fn in self.iters:
                    env = pm.match(pattern, cand)
                    if env is not None:
                        elems = fn(env, st_, trace)
                        if elems is not None:
                            break
                if elems is not None:
                    break
            if elems is None:
                return False
            for el in elems:
                st2 = dict(st_, senv=dict(st_.get('senv', {})), env=dict(st_.get('env', {})))
                self.bind(g.target, el, st2)
                if all(self.cond(c, st2, trace) for c in g.ifs):
                    if not rec(k + 1, st2):
                        return False
            return True
        return out if rec(0, state) else None

    def kill(self, names, state):
        senv = state.get('senv')
        if senv:
            for n in names:
                senv.pop(n, None)
                # bindings that mention a re-bound name are frozen at their current meaning: drop them as well
                for k in [k for k, v in senv.items() if any(isinstance(x, ast.Name) and x.id == n for x in ast.walk(v))]:
                    senv.pop(k, None)
        bv = state.get('bvars')
        if bv:
            for n in names:
                bv.pop(n, None)

    def bind(self, target, element, state):
        '''bind loop target names to an abstract element: state['env'][name] = element'''
        env = state.setdefault('env', {})
        self.kill([n.id for n in ast.walk(target) if isinstance(n, ast.Name)], state)
        if isinstance(element, Sym):
            self._bind_sym(target, element.value, state)
            return
        if isinstance(target, ast.Name):
            env[target.id] = element
        elif isinstance(target, (ast.Tuple, ast.List)):
            for i, t in enumerate(target.elts):
                if isinstance(t, ast.Name):
                    env[t.id] = (element, i) if i else element
        else:
            raise AnalysisError('%s: loop target `%s` not understood' % (loc(target), src(target)))

    def _bind_sym(self, target, value, state):
        '''symbolic element: an ast expression, or a (nested) tuple of them matching the target'''
        if isinstance(target, ast.Name):
            if isinstance(value, tuple):
                value = ast.Tuple(elts=list(value), ctx=ast.Load())
            state.setdefault('senv', {})[target.id] = value
        elif isinstance(target, (ast.Tuple, ast.List)):
            if isinstance(value, ast.Tuple):
                value = tuple(value.elts)
            if not isinstance(value, tuple) or len(value) != len(target.elts):
                raise AnalysisError('%s: loop target `%s` does not fit the elements of the iterable' % (loc(target), src(target)))
            for t, v in zip(target.elts, value):
                self._bind_sym(t, v, state)
        else:
            raise AnalysisError('%s: loop target `%s` not understood' % (loc(target), src(target)))

    def pure(self, e):
        '''pure for the purposes of this rule: sa/normal's notion plus the calls the rule declares free of effects'''
        if not self.pure_calls:
            return normal.is_pure(e)
        class Drop(ast.NodeTransformer):
            def visit_Call(s2, n):
                s2.generic_visit(n)
                nm = n.func.id if isinstance(n.func, ast.Name) else (n.func.attr if isinstance(n.func, ast.Attribute) else None)
                if nm in self.pure_calls or isinstance(n.func, ast.Tuple):
                    return ast.copy_location(ast.Tuple(elts=list(n.args) + [k.value for k in n.keywords], ctx=ast.Load()), n)
                return n
        return normal.is_pure(Drop().visit(normal.clone(e)))

    # -- conditions ----------------------------------------------------------
    def cond(self, node, state, trace):
        if isinstance(node, ast.BoolOp):
            if isinstance(node.op, ast.And):
                for v in node.values:
                    if not self.cond(v, state, trace):
                        return False
                return True
            for v in node.values:
                if self.cond(v, state, trace):
                    return True
            return False
        if isinstance(node, ast.UnaryOp) and isinstance(node.op, ast.Not):
            return not self.cond(node.operand, state, trace)
        if isinstance(node, ast.Constant) and isinstance(node.value, bool):
            return node.value
        if isinstance(node, ast.Constant) and (node.value is None or isinstance(node.value, (str, int, float))):
            return bool(node.value)
        if isinstance(node, ast.Compare) and len(node.ops) > 1:
            # a < b < c  ->  a < b and b < c
            left = node.left
            for op, right in zip(node.ops, node.comparators):
                part = ast.Compare(left=left, ops=[op], comparators=[right])
                if not self.cond(part, state, trace):
                    return False
                left = right
            return True
        if isinstance(node, ast.Call) and self.helpers is not None and self.helpers(node) is not None:
            # a newly introduced helper used as a condition: its body is interpreted in place, its result is the truth value
            res = self.call_helper(self.helpers(node), self.subst(node, state) if self.symbolic else node, state, trace)
            if isinstance(res, bool):
                return res
            if res is None:
                return False
            return self.cond(res, state, trace)
        if isinstance(node, ast.Call) and isinstance(node.func, ast.Name) and node.func.id in ('any', 'all') and len(node.args) == 1 and \
                not node.keywords and isinstance(node.args[0], (ast.GeneratorExp, ast.ListComp)):
            # any(c for x in X) / all(..): the element condition under every abstract element of the iterable
            vals = self._comprehension_truths(node.args[0], state, trace, stop_at=(node.func.id == 'any'))
            if vals is not None:
                return any(vals) if node.func.id == 'any' else all(vals)
        if isinstance(node, ast.Name) and node.id in state.get('bvars', {}):
            return state['bvars'][node.id]
        if self.symbolic:
            # locals (and literal tables) the rule cannot know are replaced by what they stand for before any atom looks at the test
            node2 = self.subst(node, state)
            if node2 is not node:
                node2 = _simplify_test(node2)
                if normal.dump(node2) != normal.dump(node):
                    return self.cond(node2, state, trace)
        for pattern, fn in self.atoms:
            env = pm.match(pattern, node)
            if env is not None:
                r = fn(env, state, trace)
                if r is not None:
                    return bool(r)
        if isinstance(node, ast.Compare) and len(node.ops) == 1 and isinstance(node.ops[0], (ast.Is, ast.IsNot, ast.Eq, ast.NotEq)):
            l = self.subst(node.left, state)
            r_ = self.subst(node.comparators[0], state)
            if isinstance(r_, ast.Constant) and r_.value is None and isinstance(node.ops[0], (ast.Is, ast.IsNot)) and (
                    isinstance(l, (ast.Lambda, ast.Dict, ast.List, ast.Tuple, ast.Set)) or
                    (isinstance(l, ast.Name) and (l.id in ('int', 'float', 'str', 'bool', 'list', 'dict', 'set', 'tuple') or self._is_function_name(l.id)))):
                return isinstance(node.ops[0], ast.IsNot)
            if isinstance(l, ast.Constant) and isinstance(r_, ast.Constant):
                same = (l.value is r_.value) if isinstance(node.ops[0], (ast.Is, ast.IsNot)) else (l.value == r_.value and type(l.value) is type(r_.value))
                return same if isinstance(node.ops[0], (ast.Is, ast.Eq)) else not same
        if isinstance(node, ast.IfExp):
            return self.cond(node.body if self.cond(node.test, state, trace) else node.orelse, state, trace)
        if isinstance(node, ast.Call) and isinstance(node.func, ast.Name) and node.func.id == 'bool' and len(node.args) == 1:
            return self.cond(node.args[0], state, trace)
        raise AnalysisError('%s: condition atom `%s` in %s is outside the idioms the abstract '
                            'interpreter knows' % (loc(node), src(node), self.fn.name))

    # -- statements ----------------------------------------------------------
    def _bool_assign(self, st, state, trace):
        '''NAME = <condition> / NAME |= <condition> / NAME &= <condition> on boolean flags'''
        if not self.bool_vars:
            return False
        if isinstance(st, ast.Assign) and len(st.targets) == 1 and isinstance(st.targets[0], ast.Name):
            name, op, value = st.targets[0].id, None, st.value
        elif isinstance(st, ast.AugAssign) and isinstance(st.target, ast.Name) and \
                isinstance(st.op, (ast.BitOr, ast.BitAnd)):
            name, op, value = st.target.id, st.op, st.value
        else:
            return False
        looks_boolean = isinstance(value, (ast.Compare, ast.BoolOp)) or \
            (isinstance(value, ast.UnaryOp) and isinstance(value.op, ast.Not)) or \
            (isinstance(value, ast.Constant) and isinstance(value.value, bool))
        if not looks_boolean:
            return False
        v = self.cond(value, state, trace)
        if state.get('senv') and name in state['senv']:
            if op is not None:
                # flag |= test on a symbolically bound flag: its current truth value first
                prev = self.cond(ast.copy_location(ast.Name(id=name, ctx=ast.Load()), st), state, trace)
                state.setdefault('bvars', {})[name] = prev
            state['senv'].pop(name, None)
        bv = state.setdefault('bvars', {})
        if op is None:
            bv[name] = v
        elif isinstance(op, ast.BitOr):
            bv[name] = bv.get(name, False) or v
        else:
            bv[name] = bv.get(name, False) and v
        return True

    def _looks_boolean_assign(self, st):
        '''flag = <test> and <test>: a truth value, not a choice between operands'''
        return all(isinstance(v, (ast.Compare, ast.BoolOp)) or (isinstance(v, ast.UnaryOp) and isinstance(v.op, ast.Not)) or
                   (isinstance(v, ast.Constant) and isinstance(v.value, bool)) or
                   (isinstance(v, ast.Call) and isinstance(v.func, ast.Name) and v.func.id in ('bool', 'isinstance', 'hasattr'))
                   for v in st.value.values)

    def _effect(self, st, state, trace):
        if self._bool_assign(st, state, trace):
            return True
        cands = [st]
        if self.symbolic:
            st2 = self.subst(st, state)
            if st2 is not st:
                cands = [st2, st]
        for cand in cands:
            for pattern, fn in self.effects:
                env = pm.match(pattern, cand)
                if env is not None:
                    saved = (dict(state.get('senv', {})), dict(state.get('bvars', {})))
                    self._kill_targets(st, state)      # what the statement binds is re-bound by the effect (or unknown)
                    r = fn(env, state, trace)
                    if r is not False:
                        return True
                    if 'senv' in state or saved[0]:
                        state['senv'] = saved[0]
                    if 'bvars' in state or saved[1]:
                        state['bvars'] = saved[1]
        for pattern in self.ignore:
            if pm.match(pattern, st) is not None:
                return True
        return False

    def _kill_targets(self, st, state):
        if isinstance(st, ast.Assign):
            names = [t.id for t in st.targets if isinstance(t, ast.Name)]
            for t in st.targets:
                if isinstance(t, (ast.Tuple, ast.List)):
                    names += [e.id for e in t.elts if isinstance(e, ast.Name)]
            if names:
                self.kill(names, state)
        elif isinstance(st, ast.AugAssign) and isinstance(st.target, ast.Name):
            self.kill([st.target.id], state)

    def _resolve_ifexps(self, value, state, trace):
        '''conditional expressions INSIDE a value (operands of + / arguments) whose test the rule's atoms decide are replaced by the
        branch taken; a test the atoms do not know stays as it is'''
        if not any(isinstance(n, ast.IfExp) for n in ast.walk(value)):
            return value
        me = self

        class R(ast.NodeTransformer):
            def visit_Lambda(s2, n):
                return n

            def visit_ListComp(s2, n):
                return n
            visit_SetComp = visit_DictComp = visit_GeneratorExp = visit_ListComp

            def visit_IfExp(s2, n):
                try:
                    c = me.cond(n.test, state, trace)
                except AnalysisError:
                    return n
                return s2.visit(n.body if c else n.orelse)
        new = R().visit(normal.clone(value))
        for n in ast.walk(new):
            if not hasattr(n, 'lineno') and isinstance(n, (ast.expr, ast.stmt)):
                ast.copy_location(n, value)
        return new

    def _symbolic_assign(self, st, state, trace):
        '''name = <expr> that no effect of the rule recognises: a local binding, kept symbolically'''
        if not self.symbolic:
            return False
        if isinstance(st, ast.AugAssign) and isinstance(st.target, ast.Name) and st.target.id in state.get('senv', {}):
            old = state['senv'][st.target.id]
            new = ast.copy_location(ast.BinOp(left=old, op=st.op, right=self.subst(st.value, state)), st)
            if self.pure(new):
                state['senv'][st.target.id] = fold_consts(new)
                return True
            return False
        if isinstance(st, ast.Assign) and len(st.targets) == 1 and isinstance(st.targets[0], (ast.Tuple, ast.List)) and \
                all(isinstance(t, ast.Name) for t in st.targets[0].elts):
            # a, b = <pure value>: each name stands for its component
            v2 = fold_consts(self.subst(st.value, state))
            if not self.pure(v2):
                return False
            names = [t.id for t in st.targets[0].elts]
            self.kill(names, state)
            if isinstance(v2, (ast.Tuple, ast.List)) and len(v2.elts) == len(names):
                parts = list(v2.elts)
            else:
                parts = [ast.copy_location(ast.Subscript(value=v2, slice=ast.Constant(value=k), ctx=ast.Load()), st) for k in range(len(names))]
            for n_, p_ in zip(names, parts):
                state.setdefault('senv', {})[n_] = p_
            return True
        if not (isinstance(st, ast.Assign) and len(st.targets) == 1 and isinstance(st.targets[0], ast.Name)):
            return False
        name, value = st.targets[0].id, st.value
        if isinstance(value, ast.IfExp):
            chosen = value.body if self.cond(value.test, state, trace) else value.orelse
            return self._symbolic_assign(ast.copy_location(ast.Assign(targets=st.targets, value=chosen), st), state, trace)
        value = self._resolve_ifexps(value, state, trace)
        value2 = fold_consts(self.subst(value, state))
        if self.pure(value2):
            if any(isinstance(x, ast.Name) and x.id == name for x in ast.walk(value2)):
                # x = f(x): the x inside stands for the value x had before (a parameter or an outer binding)
                value2 = normal._Rename({name: name + '__0'}).visit(normal.clone(value2))
            self.kill([name], state)
            state.setdefault('senv', {})[name] = value2
            return True
        # a call with a meaning to the rule (an atom): its effect is recorded, its truth value bound to the name
        if isinstance(value2, ast.Call):
            for pattern, fn in self.atoms:
                env = pm.match(pattern, value2)
                if env is not None:
                    r = fn(env, state, trace)
                    if r is not None:
                        self.kill([name], state)
                        state.setdefault('bvars', {})[name] = bool(r)
                        return True
            d = self.helpers(value2) if self.helpers is not None else None
            if d is not None:
                out = self.call_helper(d, value2, state, trace)
                self.kill([name], state)
                if out is not None:
                    if isinstance(out, bool):
                        state.setdefault('bvars', {})[name] = out
                    elif not (isinstance(out, ast.Name) and out.id == name):
                        state.setdefault('senv', {})[name] = out
                return True
        return False

    def call_helper(self, d, call, state, trace):
        '''interpret the body of helper d in place (parameters bound symbolically); returns the returned expression'''
        if self.depth > 4:
            raise AnalysisError('%s: helper calls nest too deeply' % loc(call))
        fnorm = normal.FunctionNormalizer(self.fn)
        bound = fnorm._bind(call, d)
        if bound is None:
            raise AnalysisError('%s: call of helper %s not understood' % (loc(call), d.name))
        params, given = bound
        saved = dict(state.get('senv', {})), dict(state.get('bvars', {})), dict(state.get('env', {}))
        senv = state.setdefault('senv', {})
        for p_ in params:
            v = given[p_]
            if not (isinstance(v, ast.Name) and v.id == p_):
                senv[p_] = v
        self.depth += 1
        try:
            try:
                self.block(d.body, state, trace)
                result = None
            except _Done as done:
                if done.outcome.kind != 'return':
                    raise
                result = self.subst(done.outcome.value, state) if done.outcome.value is not None else None
        finally:
            self.depth -= 1
        # the helper's locals go away; what it returned is expressed in the caller's terms already
        state['senv'] = saved[0]
        elem = None
        if isinstance(result, ast.Name) and result.id in state.get('env', {}):
            elem = state['env'][result.id]
        state['env'] = saved[2]
        if elem is not None:
            # the helper hands out one of its abstract loop elements: it travels under a name of its own
            self.depth_names = getattr(self, 'depth_names', 0) + 1
            nm = '%s__h%d' % (result.id, self.depth_names)
            state.setdefault('env', {})[nm] = elem
            return ast.copy_location(ast.Name(id=nm, ctx=ast.Load()), call)
        if isinstance(result, ast.Constant) and isinstance(result.value, bool):
            return result.value
        return result

    def _handler_for(self, st, exc_name):
        for h in st.handlers:
            if h.type is None:
                return h
            types = h.type.elts if isinstance(h.type, ast.Tuple) else [h.type]
            for t in types:
                nm = (src(t) or '').split('.')[-1]
                if nm in ('Exception', 'BaseException') or nm == exc_name or nm in EXCEPTION_BASES.get(exc_name, ()):
                    return h
        return None

    def _try(self, st, state, trace):
        '''try / except / else / finally: exceptions are the ones rules raise for recognised operations (Raised) and `raise`
        statements of the analysed code'''
        def fin():
            if st.finalbody:
                self.block(st.finalbody, state, trace)
        try:
            self.block(st.body, state, trace)
        except Raised as r_:
            h = self._handler_for(st, r_.exc_name)
            if h is None:
                fin()
                raise
            trace.append(('caught', r_.exc_name))
            try:
                self.block(h.body, state, trace)
            finally:
                pass
            fin()
            return
        except _Done as d:
            if d.outcome.kind == 'raise' and d.outcome.node is not None and isinstance(d.outcome.node, ast.Raise):
                from .rules.common import exception_class_name
                nm = exception_class_name(d.outcome.node)
                h = self._handler_for(st, nm) if nm else None
                if h is not None:
                    trace.append(('caught', nm))
                    self.block(h.body, state, trace)
                    fin()
                    return
            fin()
            raise
        self.block(st.orelse, state, trace)
        fin()

    def block(self, stmts, state, trace):
        for st in stmts:
            self.stmt(st, state, trace)

    def stmt(self, st, state, trace):
        if isinstance(st, ast.If):
            if self.cond(st.test, state, trace):
                self.block(st.body, state, trace)
            else:
                self.block(st.orelse, state, trace)
            return
        if isinstance(st, ast.Return):
            value = st.value
            if value is not None:
                if isinstance(value, ast.IfExp):
                    value = value.body if self.cond(value.test, state, trace) else value.orelse
                value = self._resolve_ifexps(value, state, trace)
                if self.symbolic and isinstance(value, ast.Call) and not (isinstance(value, ast.Name)):
                    v2 = fold_consts(self.subst(value, state))
                    if isinstance(v2, ast.Call):
                        value = v2
                if self.helpers is not None and isinstance(value, ast.Call) and self.helpers(value) is not None:
                    value = self.call_helper(self.helpers(value), value, state, trace)
                    if isinstance(value, bool):
                        value = ast.Constant(value=value)
                elif isinstance(value, ast.Name) and value.id in state.get('bvars', {}):
                    value = ast.copy_location(ast.Constant(value=state['bvars'][value.id]), st)
                elif self.symbolic and value is not None:
                    value = fold_consts(self.subst(value, state))
                if value is not None:
                    self._effect(ast.Expr(value=value), state, trace)
            raise _Done(Outcome('return', st, value))
        if isinstance(st, ast.Raise):
            raise _Done(Outcome('raise', st, st.exc))
        if isinstance(st, ast.Pass):
            return
        if isinstance(st, ast.Expr) and isinstance(st.value, ast.Constant):
            return   # docstring
        if isinstance(st, ast.While):
            n = 0
            while self.cond(st.test, state, trace):
                n += 1
                if n > self.max_loop:
                    raise AnalysisError('%s: loop does not terminate on the abstract state' % loc(st))
                try:
                    self.block(st.body, state, trace)
                except _Break:
                    break
                except _Continue:
                    continue
            return
        if isinstance(st, ast.For):
            elems = None
            it = self.subst(st.iter, state) if self.symbolic else st.iter
            hops = 0
            while isinstance(it, ast.IfExp) and hops < 4:
                # for v in (A if c else B): the iterable is chosen by the condition
                hops += 1
                chosen = it.body if self.cond(it.test, state, trace) else it.orelse
                st = ast.copy_location(ast.For(target=st.target, iter=chosen, body=st.body, orelse=st.orelse), st)
                it = chosen
            for cand in ([st.iter] if it is st.iter else [it, st.iter]):
                for pattern, fn in self.iters:
                    env = pm.match(pattern, cand)
                    if env is not None:
                        elems = fn(env, state, trace)
                        if elems is not None:
                            break
                if elems is not None:
                    break
            if elems is None and isinstance(it, (ast.Tuple, ast.List)) and not any(isinstance(x, ast.Starred) for x in it.elts):
                # a literal collection: its elements, symbolically
                elems = [Sym(tuple(x.elts) if isinstance(x, (ast.Tuple, ast.List)) else x) for x in it.elts]
            if elems is None:
                raise AnalysisError('%s: iterable `%s` in %s is outside the idioms the abstract interpreter '
                                    'knows' % (loc(st), src(st.iter), self.fn.name))
            broke = False
            for el in elems:
                self.bind(st.target, el, state)
                try:
                    self.block(st.body, state, trace)
                except _Break:
                    broke = True
                    break
                except _Continue:
                    continue
            if not broke:
                self.block(st.orelse, state, trace)
            return
        if isinstance(st, ast.Expr) and isinstance(st.value, ast.YieldFrom):
            # yield from E  ==  for v in E: yield v
            v = ast.Name(id='_yielded', ctx=ast.Store())
            loop = ast.For(target=v, iter=st.value.value, body=[ast.Expr(value=ast.Yield(value=ast.Name(id='_yielded', ctx=ast.Load())))], orelse=[])
            ast.copy_location(loop, st)
            ast.fix_missing_locations(loop)
            return self.stmt(loop, state, trace)
        if isinstance(st, ast.Try):
            return self._try(st, state, trace)
        if isinstance(st, ast.With):
            # the context managers of this repository (files, zip members) do not alter control flow: the body runs once
            for item in st.items:
                if item.optional_vars is not None:
                    self.kill([n.id for n in ast.walk(item.optional_vars) if isinstance(n, ast.Name)], state)
                trace.append(('with', src(item.context_expr)))
            self.block(st.body, state, trace)
            return
        if isinstance(st, ast.Break):
            raise _Break()
        if isinstance(st, ast.Continue):
            raise _Continue()
        if isinstance(st, ast.Assign) and len(st.targets) == 1 and not isinstance(st.targets[0], ast.Name) and self.helpers is not None and \
                isinstance(st.value, ast.Call) and self.helpers(st.value) is not None and not getattr(st, '_helper_done', False):
            # <target> = helper(...): the helper is interpreted in place, the statement then assigns what it returned
            res = self.call_helper(self.helpers(st.value), self.subst(st.value, state), state, trace)
            if isinstance(res, bool):
                res = ast.Constant(value=res)
            if res is None:
                res = ast.Constant(value=None)
            new = ast.copy_location(ast.Assign(targets=st.targets, value=res), st)
            new._helper_done = True
            return self.stmt(new, state, trace)
        if isinstance(st, ast.Assign) and len(st.targets) > 1:
            # a = b = V : V is computed once and bound to a, then b takes the same object
            first = ast.copy_location(ast.Assign(targets=[st.targets[0]], value=st.value), st)
            self.stmt(first, state, trace)
            src_t = normal.clone(st.targets[0])
            for x in ast.walk(src_t):
                if hasattr(x, 'ctx'):
                    x.ctx = ast.Load()
            for t in st.targets[1:]:
                self.stmt(ast.copy_location(ast.Assign(targets=[t], value=normal.clone(src_t)), st), state, trace)
            return
        if isinstance(st, ast.Assign) and len(st.targets) == 1 and isinstance(st.targets[0], ast.Name):
            if isinstance(st.value, ast.Name) and st.value.id == st.targets[0].id:
                return
            if isinstance(st.value, ast.BoolOp) and not self._looks_boolean_assign(st):
                # x = a or b  /  x = a and b : the operand that decides the value is the one assigned
                chosen = st.value.values[-1]
                for v in st.value.values[:-1]:
                    t = self.cond(v, state, trace)
                    if t == isinstance(st.value.op, ast.Or):
                        chosen = v
                        break
                return self.stmt(ast.copy_location(ast.Assign(targets=st.targets, value=chosen), st), state, trace)
        if self._effect(st, state, trace):
            return
        if self._symbolic_assign(st, state, trace):
            return
        if isinstance(st, ast.Expr) and isinstance(st.value, ast.Call) and self.helpers is not None and self.helpers(st.value) is not None:
            self.call_helper(self.helpers(st.value), st.value, state, trace)
            return
        if isinstance(st, ast.Expr) and isinstance(st.value, ast.Call):
            # a call whose result is discarded: evaluate it as an atom for its recorded effect
            for pattern, fn in self.atoms:
                env = pm.match(pattern, st.value)
                if env is not None and fn(env, state, trace) is not None:
                    return
        if self.skip is not None and self.skip(st):
            return
        if is_logging_stmt(st):
            return
        raise AnalysisError('%s: statement `%s` in %s is outside the idioms the abstract '
                            'interpreter knows' % (loc(st), src(st).split('\n')[0], self.fn.name))

    def run(self, state, body=None):
        trace = []
        body = body if body is not None else self.fn.body
        try:
            self.block(body, state, trace)
        except _Done as d:
            return d.outcome, trace
        except Raised as r_:
            return Outcome('raise', r_.node, ast.parse('%s()' % r_.exc_name).body[0].value), trace
        return Outcome('falloff', self.fn, None), trace


def _beta(node):
    '''(lambda a: e)(x) -> e[x/a] when every parameter is used at most once or the argument is a plain name / attribute chain'''
    if not any(isinstance(n, ast.Call) and isinstance(n.func, ast.Lambda) for n in ast.walk(node)):
        return node

    class B(ast.NodeTransformer):
        def visit_Call(self, n):
            self.generic_visit(n)
            f = n.func
            if isinstance(f, ast.Lambda) and not n.keywords and not any(isinstance(a, ast.Starred) for a in n.args):
                la = f.args
                if not (la.vararg or la.kwarg or la.kwonlyargs or la.defaults) and len(la.args) == len(n.args):
                    names = [x.arg for x in la.args]
                    return normal._Subst(dict(zip(names, n.args))).visit(normal.clone(f.body))
            return n
    return B().visit(node)


def strip0(node):
    '''expression with the markers of "value before the re-binding" (name__0) removed: for rules that do not distinguish a
    parameter from its re-bound self'''
    if node is None:
        return None
    new = normal.clone(node)
    for n in ast.walk(new):
        if isinstance(n, ast.Name) and n.id.endswith('__0'):
            n.id = n.id[:-3]
    return new


def fold_consts(node):
    ''''a' + 'b' -> 'ab' (string / number constants only)'''
    class F(ast.NodeTransformer):
        def visit_BinOp(self, n):
            self.generic_visit(n)
            if isinstance(n.op, ast.Add) and isinstance(n.left, ast.Constant) and isinstance(n.right, ast.Constant) and \
                    type(n.left.value) is type(n.right.value) and isinstance(n.left.value, (str, int)) and not isinstance(n.left.value, bool):
                return ast.copy_location(ast.Constant(value=n.left.value + n.right.value), n)
            return n
    if not any(isinstance(x, ast.BinOp) for x in ast.walk(node)):
        return node
    return F().visit(normal.clone(node))


def dict_lookup(value, key_equals):
    '''`{k1: v1, ..}[K]` / `{..}.get(K[, D])` with a literal dictionary: the value selected for the abstract key, decided by
    key_equals(K, <constant key node>) -> True / False / None (unknown).  Returns (found, node): found False when value
    is not such a lookup or a key comparison is unknown; node None when the key is absent and there is no default
    (indexing would raise KeyError, .get yields None -> ast.Constant(None)).'''
    d = k = default = None
    kind = None
    if isinstance(value, ast.Subscript) and isinstance(value.value, ast.Dict):
        d, k, kind = value.value, value.slice, 'index'
    elif isinstance(value, ast.Call) and isinstance(value.func, ast.Attribute) and value.func.attr == 'get' and \
            isinstance(value.func.value, ast.Dict) and 1 <= len(value.args) <= 2 and not value.keywords:
        d, k, kind = value.func.value, value.args[0], 'get'
        default = value.args[1] if len(value.args) == 2 else ast.copy_location(ast.Constant(value=None), value)
    if d is None or any(x is None for x in d.keys):
        return False, None
    for kn, vn in zip(d.keys, d.values):
        r = key_equals(k, kn)
        if r is None:
            return False, None
        if r:
            return True, vn
    return True, default


def _simplify_test(node):
    '''expression-level normal form of a test (len(x) == 0 -> not x, not not x -> x, ...)'''
    try:
        new = normal._Expr().visit(normal.clone(node))
        new = normal._strip_double_not(normal._strip_bool(new))
        for n in ast.walk(new):
            if not hasattr(n, 'lineno') and isinstance(n, ast.expr):
                ast.copy_location(n, node)
        return new
    except Exception:
        return node


def is_logging_stmt(st):
    '''logger.xxx(...) / print(...) statements have no effect on model state'''
    if isinstance(st, ast.Expr) and isinstance(st.value, ast.Call):
        f = st.value.func
        if isinstance(f, ast.Attribute) and isinstance(f.value, ast.Name) and f.value.id in ('logger', 'logging'):
            return True
        if isinstance(f, ast.Name) and f.id == 'print':
            return True
    return False


def const_value(node):
    '''constant value of a returned expr; raises AnalysisError otherwise'''
    if node is None:
        return None
    if isinstance(node, ast.Constant):
        return node.value
    if isinstance(node, ast.UnaryOp) and isinstance(node.op, ast.USub) and isinstance(node.operand, ast.Constant):
        return -node.operand.value
    raise AnalysisError('%s: expected a constant, found `%s`' % (loc(node), src(node)))
