'''
Engine `normal`: behaviour-preserving NORMAL FORM of every function of the analysed tree, computed on the syntax tree
before any rule looks at it.  Two functions that differ only by the usual refactorings have the same normal form,
so a rule written against the normal form neither fires on such an edit nor has to enumerate its spellings.

Passes (each is a local rewrite whose two sides are equivalent Python; all run to a fixpoint):

  helpers      a call of a function/method that is NOT in the frozen inventory of the reference tree (sa/inventory.json;
               i.e. a newly extracted helper) and every call of a non-escaping local `def` is inlined into its caller;
               a reference to such a helper as a value becomes the equivalent lambda
  lambdas      `def f(a): return e` (local)                   ->  f = lambda a: e
  tuples       a, b = x, y                                    ->  a = x; b = y        (when order cannot matter)
  temporaries  a local assigned once to a pure expression is substituted into its uses; a local assigned once and
               used once in the next statement is substituted whatever it is
  collections  xs = []; for v in it: xs.append(e)             ->  xs = [e for v in it]     (same for dict / dict(gen))
  flags        f = True; for..: if c: f = False; break; if f: X  ->  for..: if c: break  else: X
  booleans     len(x) == 0 -> not x ; isinstance(x, (A, B)) -> isinstance(x, A) or isinstance(x, B) ;
               x in [a, b] -> x in (a, b) ; negations pushed inwards ; f(*(a, b), **{'k': v}) -> f(a, b, k=v)
  structure    else after a branch that ends in a jump is dropped; a jump-only branch comes first;
               `if c: BODY` as the last statement of a loop / function body becomes the guard `if not c: continue/return`;
               consecutive guards with the same jump are merged with `or`; if/elif branches with equal bodies are merged;
               `if a: if b: X` -> `if a and b: X`; `while True: if not c: break; ...` -> `while c: ...`;
               a `continue` in tail position of a loop body is a `pass`

The rewriting keeps the original nodes (and their line numbers) wherever the code is not touched.
'''
import ast
import keyword
import copy
import json
import os

HERE = os.path.dirname(os.path.abspath(__file__))

PURE_FUNCS = {
    'len', 'list', 'set', 'tuple', 'dict', 'sorted', 'str', 'int', 'float', 'bool', 'isinstance', 'getattr', 'hasattr',
    'type', 'iter', 'zip', 'enumerate', 'reversed', 'min', 'max', 'any', 'all', 'filter', 'map', 'range', 'repr',
    'frozenset', 'abs', 'sum', 'one', 'many', 'navigate_one', 'navigate_many', 'navigate_any', 'where_eq', 'order_by',
    'get_metaclass', 'get_metamodel', '_is_null', 'issubclass', 'callable', 'id', 'ord', 'chr', 'unicode', 'property',
    'navigate_subtype', 'sort_reflexive', 'find_column', 'nav_one', 'nav_any', 'nav_many', 'nav_subtype', 'subtype',
}
PURE_METHODS = {
    'upper', 'lower', 'strip', 'lstrip', 'rstrip', 'format', 'join', 'split', 'get', 'keys', 'values', 'items',
    'startswith', 'endswith', 'replace', 'navigate', 'select_any', 'select_many', 'select_one', 'find_metaclass',
    'find_class', 'rfind', 'find', 'index', 'count', 'copy', 'title', 'isdigit', 'issubset', 'issuperset', 'union',
    'difference', 'intersection', 'navigate_one', 'navigate_many', 'navigate_any', 'where_eq', 'order_by', 'is_',
    'attribute_type', 'attribute_names', 'encode', 'decode',
    'lexspan', 'linespan', 'lineno', 'lexpos', 'splitlines', 'isalpha', 'isalnum', 'capitalize', 'partition', 'rpartition',
}


STATELESS_FUNCS = {'isinstance', 'type', 'str', 'int', 'float', 'bool', 'repr', 'id', 'callable', 'issubclass', 'ord', 'chr', 'abs',
                   'get_metaclass', 'get_metamodel', 'unicode', 'range', 'where_eq', 'order_by', 'property'}
STATELESS_METHODS = {'upper', 'lower', 'strip', 'lstrip', 'rstrip', 'format', 'startswith', 'endswith', 'replace', 'split', 'join',
                     'isdigit', 'title', 'encode', 'decode', 'rfind', 'find', 'partition', 'rpartition', 'isalpha', 'isalnum',
                     'capitalize', 'splitlines', 'count', 'index'}


def may_raise(e):
    '''can evaluating the (pure) expression raise?  Names, constants, lambdas, identity / equality tests, boolean
    combinations of those and attributes of `self` cannot (as far as this analysis is concerned)'''
    for n in _walk_no_lambda(e):
        if isinstance(n, (ast.Call, ast.Subscript, ast.BinOp, ast.Starred, ast.ListComp, ast.SetComp, ast.DictComp, ast.GeneratorExp,
                          ast.JoinedStr, ast.Await, ast.Yield, ast.YieldFrom)):
            return True
        if isinstance(n, ast.Attribute) and not (isinstance(n.value, ast.Name) and n.value.id in ('self', 'cls')):
            return True
        if isinstance(n, ast.Compare) and any(not isinstance(o, (ast.Is, ast.IsNot, ast.Eq, ast.NotEq)) for o in n.ops):
            return True
        if isinstance(n, ast.UnaryOp) and not isinstance(n.op, ast.Not):
            return True
    return False


def _walk_no_lambda(e):
    stack = [e]
    while stack:
        n = stack.pop()
        yield n
        if isinstance(n, ast.Lambda):
            continue
        stack.extend(ast.iter_child_nodes(n))


def reads_state(e):
    '''does the (pure) expression compute its value from mutable state through a call?  Such a value may differ when it is
    computed after some other call has run.'''
    for n in ast.walk(e):
        if isinstance(n, ast.Call):
            f = n.func
            if isinstance(f, ast.Name) and f.id in STATELESS_FUNCS:
                continue
            if isinstance(f, ast.Attribute) and f.attr in STATELESS_METHODS:
                continue
            if isinstance(f, ast.Lambda):
                continue
            return True
    return False


def _walk_evaluated(e):
    '''the nodes that are evaluated when e is: the body of a lambda that is only created (not called on the spot) is not'''
    stack = [e]
    called = set()
    while stack:
        n = stack.pop()
        yield n
        if isinstance(n, ast.Call) and isinstance(n.func, ast.Lambda):
            called.add(id(n.func))
        if isinstance(n, ast.Lambda) and id(n) not in called:
            stack.extend(d for d in list(n.args.defaults) + [k for k in n.args.kw_defaults if k is not None])
            continue
        stack.extend(ast.iter_child_nodes(n))


def is_pure(e):
    '''conservative: an expression whose evaluation has no effect and whose value does not depend on when it is evaluated
    (as long as the names / attributes it reads are not written in between -- checked by the caller)'''
    for n in _walk_evaluated(e):
        if isinstance(n, (ast.Yield, ast.YieldFrom, ast.Await, ast.NamedExpr)):
            return False
        if isinstance(n, ast.Call):
            f = n.func
            if isinstance(f, ast.Name):
                if f.id not in PURE_FUNCS:
                    return False
            elif isinstance(f, ast.Attribute):
                if f.attr not in PURE_METHODS and f.attr not in PURE_FUNCS:
                    return False
            elif isinstance(f, (ast.Subscript,)):
                # navigation chains one(x).A[1].B[2]() are calls on a subscript
                root = f
                while isinstance(root, (ast.Subscript, ast.Attribute)):
                    root = root.value
                if not (isinstance(root, ast.Call) and isinstance(root.func, (ast.Name, ast.Attribute))):
                    return False
            elif isinstance(f, ast.Lambda):
                pass
            else:
                return False
    return True


def dump(n):
    if isinstance(n, list):
        return '[' + ','.join(dump(x) for x in n) + ']'
    return ast.dump(n, annotate_fields=False, include_attributes=False)


def at(new, old):
    '''new node(s) take the position of old'''
    for n in ast.walk(new):
        if not hasattr(n, 'lineno') and isinstance(n, (ast.expr, ast.stmt)):
            ast.copy_location(n, old)
        if isinstance(n, (ast.expr, ast.stmt)) and getattr(n, 'lineno', None) is None:
            ast.copy_location(n, old)
    return new


def clone(n):
    '''structural copy of an ast node (positions kept; analysis annotations such as _parent are not followed)'''
    if isinstance(n, list):
        return [clone(x) for x in n]
    if not isinstance(n, ast.AST):
        return n
    new = type(n)()
    for f in n._fields:
        if hasattr(n, f):
            setattr(new, f, clone(getattr(n, f)))
    for a in ('lineno', 'col_offset', 'end_lineno', 'end_col_offset'):
        if hasattr(n, a):
            setattr(new, a, getattr(n, a))
    if getattr(n, '_is_method', False):
        new._is_method = True
    return new


# ---------------------------------------------------------------------------------------------------------------
# boolean helpers
_FLIP = {ast.Eq: ast.NotEq, ast.NotEq: ast.Eq, ast.In: ast.NotIn, ast.NotIn: ast.In, ast.Is: ast.IsNot, ast.IsNot: ast.Is,
         ast.Lt: ast.GtE, ast.GtE: ast.Lt, ast.Gt: ast.LtE, ast.LtE: ast.Gt}


def _numeric(e):
    '''an expression that can only be a number (so that an ordering comparison with it is a total order)'''
    if isinstance(e, ast.Constant):
        return isinstance(e.value, (int, float)) and not isinstance(e.value, bool)
    if isinstance(e, ast.Call) and isinstance(e.func, ast.Name) and e.func.id in ('len', 'int', 'float', 'abs', 'ord', 'round'):
        return True
    if isinstance(e, ast.Call) and isinstance(e.func, ast.Attribute) and e.func.attr in ('count', 'index', 'find', 'rfind'):
        return True
    if isinstance(e, ast.UnaryOp) and isinstance(e.op, (ast.USub, ast.UAdd)):
        return _numeric(e.operand)
    if isinstance(e, ast.BinOp) and isinstance(e.op, (ast.Add, ast.Sub, ast.Mult, ast.FloorDiv, ast.Mod)):
        return _numeric(e.left) and _numeric(e.right)
    return False


def _flippable(e):
    '''may `not (a OP b)` be written with the opposite operator?  ==, is, in always; an ordering only between numbers (sets and
    other partial orders have a <= b and a > b both false)'''
    if not (isinstance(e, ast.Compare) and len(e.ops) == 1 and type(e.ops[0]) in _FLIP):
        return False
    if isinstance(e.ops[0], (ast.Lt, ast.LtE, ast.Gt, ast.GtE)):
        return _numeric(e.left) or _numeric(e.comparators[0])
    return True


def neg(e):
    '''negation of a condition in negation normal form'''
    if isinstance(e, ast.UnaryOp) and isinstance(e.op, ast.Not):
        return e.operand
    if _flippable(e):
        return at(ast.Compare(left=e.left, ops=[_FLIP[type(e.ops[0])]()], comparators=e.comparators), e)
    if isinstance(e, ast.BoolOp):
        op = ast.Or() if isinstance(e.op, ast.And) else ast.And()
        return at(ast.BoolOp(op=op, values=[neg(v) for v in e.values]), e)
    if isinstance(e, ast.Constant) and isinstance(e.value, bool):
        return at(ast.Constant(value=not e.value), e)
    return at(ast.UnaryOp(op=ast.Not(), operand=e), e)


def mk_bool(op, values, where):
    flat = []
    for v in values:
        if isinstance(v, ast.BoolOp) and type(v.op) is type(op):
            flat.extend(v.values)
        else:
            flat.append(v)
    if len(flat) == 1:
        return flat[0]
    return at(ast.BoolOp(op=op, values=flat), where)


class _Expr(ast.NodeTransformer):
    '''expression-level normal forms'''

    def __init__(self):
        self.in_test = 0

    def visit_UnaryOp(self, node):
        self.generic_visit(node)
        if isinstance(node.op, ast.Not):
            o = node.operand
            if isinstance(o, (ast.Compare, ast.BoolOp)) or (isinstance(o, ast.UnaryOp) and isinstance(o.op, ast.Not)):
                if isinstance(o, ast.UnaryOp):
                    # not not y: y itself when y is a truth value, else its truth value (a test position strips the bool() again)
                    y = o.operand
                    if _is_truth_value(y):
                        return y
                    return at(ast.Call(func=ast.Name(id='bool', ctx=ast.Load()), args=[y], keywords=[]), node)
                if not (isinstance(o, ast.Compare) and not _flippable(o)):
                    return neg(o)
            # not len(x) -> not x
            if isinstance(o, ast.Call) and isinstance(o.func, ast.Name) and o.func.id == 'len' and len(o.args) == 1 and not o.keywords:
                node.operand = o.args[0]
        return node

    def visit_Compare(self, node):
        self.generic_visit(node)
        if len(node.ops) == 1:
            l, op, r = node.left, node.ops[0], node.comparators[0]
            # len(x) == 0 -> not x ; len(x) != 0 / len(x) > 0 / len(x) >= 1 -> bool(x)  [only rewritten where a truth value is wanted]
            if isinstance(l, ast.Call) and isinstance(l.func, ast.Name) and l.func.id == 'len' and len(l.args) == 1 \
                    and not l.keywords and isinstance(r, ast.Constant) and type(r.value) is int:
                x = l.args[0]
                if (isinstance(op, ast.Eq) and r.value == 0) or (isinstance(op, ast.Lt) and r.value == 1):
                    return at(ast.UnaryOp(op=ast.Not(), operand=x), node)
                if (isinstance(op, (ast.NotEq, ast.Gt)) and r.value == 0) or (isinstance(op, ast.GtE) and r.value == 1):
                    return at(ast.Call(func=ast.Name(id='bool', ctx=ast.Load()), args=[x], keywords=[]), node)
            # bool(x) == True / is True -> bool(x);  bool(x) == False / is False -> not x   (and the != / is not forms); also with the
            # constant on the left.  `not x` and comparisons are booleans as well.
            def _boolish(e):
                return (isinstance(e, ast.Call) and isinstance(e.func, ast.Name) and e.func.id == 'bool' and len(e.args) == 1 and not e.keywords) or \
                    (isinstance(e, ast.UnaryOp) and isinstance(e.op, ast.Not)) or isinstance(e, ast.Compare)
            if isinstance(op, (ast.Eq, ast.NotEq, ast.Is, ast.IsNot)):
                for a_, b_ in ((l, r), (r, l)):
                    if _boolish(a_) and isinstance(b_, ast.Constant) and type(b_.value) is bool:
                        positive = b_.value == isinstance(op, (ast.Eq, ast.Is))
                        if positive:
                            return a_
                        inner = a_.args[0] if isinstance(a_, ast.Call) else a_
                        return self.visit(at(ast.UnaryOp(op=ast.Not(), operand=inner), node))
            # <constant> is [not] None  ->  True / False
            if isinstance(op, (ast.Is, ast.IsNot)) and isinstance(l, ast.Constant) and isinstance(r, ast.Constant) and (l.value is None or r.value is None):
                same = l.value is None and r.value is None
                return at(ast.Constant(value=same if isinstance(op, ast.Is) else not same), node)
            # 'c' == x -> x == 'c'   (a constant operand of == / != stands on the right)
            if isinstance(op, (ast.Eq, ast.NotEq)) and isinstance(l, ast.Constant) and not isinstance(r, ast.Constant):
                node.left, node.comparators = r, [l]
                l, r = r, l
            # x in d.keys() -> x in d
            if isinstance(op, (ast.In, ast.NotIn)) and isinstance(r, ast.Call) and isinstance(r.func, ast.Attribute) and r.func.attr == 'keys' \
                    and not r.args and not r.keywords:
                node.comparators = [r.func.value]
                r = r.func.value
            # x in [a, b] -> x in (a, b)
            if isinstance(op, (ast.In, ast.NotIn)) and (isinstance(r, ast.List) or (isinstance(r, ast.Set) and
                    all(isinstance(e, ast.Constant) for e in r.elts))) and not any(isinstance(e, ast.Starred) for e in r.elts):
                node.comparators = [at(ast.Tuple(elts=r.elts, ctx=ast.Load()), r)]
        return node

    nav_sugar = False      # set by Normalizer.run() when NavChain's sugar methods of the analysed tree are the known ones

    def visit_BoolOp(self, node):
        self.generic_visit(node)
        return mk_bool(node.op, node.values, node)

    def visit_Call(self, node):
        self.generic_visit(node)
        f = node.func
        # (A if c else B)(args)  ->  A(args) if c else B(args)      (the test is evaluated first either way; pure arguments only)
        if isinstance(f, ast.IfExp) and all(is_pure(a) for a in node.args) and all(is_pure(k.value) for k in node.keywords):
            return at(ast.IfExp(test=f.test,
                                body=ast.Call(func=f.body, args=[clone(a) for a in node.args], keywords=[clone(k) for k in node.keywords]),
                                orelse=ast.Call(func=f.orelse, args=[clone(a) for a in node.args], keywords=[clone(k) for k in node.keywords])), node)
        # <navigation chain>.nav('KIND', N[, 'phrase'])  ->  <navigation chain>.KIND[N[, 'phrase']]      (NavChain.__getattr__ / __getitem__
        # are that sugar: checked on the analysed tree by Normalizer._navchain_sugar before this rewrite is enabled)
        if _Expr.nav_sugar and isinstance(f, ast.Attribute) and f.attr == 'nav' and not node.keywords and len(node.args) in (2, 3) and \
                isinstance(node.args[0], ast.Constant) and isinstance(node.args[0].value, str) and node.args[0].value.isidentifier() and \
                not keyword.iskeyword(node.args[0].value) and node.args[0].value not in ('handle', 'nav', '_nav', '_kind') and \
                not node.args[0].value.startswith('__') and not any(isinstance(a, ast.Starred) for a in node.args) and _is_nav_chain(f.value):
            if len(node.args) == 3 and isinstance(node.args[2], ast.Constant) and node.args[2].value == '':
                node.args = node.args[:2]
            if not (isinstance(node.args[1], ast.Tuple)):
                idx = node.args[1] if len(node.args) == 2 else at(ast.Tuple(elts=[node.args[1], node.args[2]], ctx=ast.Load()), node)
                return at(ast.Subscript(value=ast.Attribute(value=f.value, attr=node.args[0].value, ctx=ast.Load()), slice=idx, ctx=ast.Load()), node)
        # str() -> ''   int() -> 0   float() -> 0.0   bool() -> False   tuple() -> ()
        if isinstance(f, ast.Name) and not node.args and not node.keywords and f.id in ('str', 'int', 'float', 'bool', 'tuple'):
            if f.id == 'tuple':
                return at(ast.Tuple(elts=[], ctx=ast.Load()), node)
            return at(ast.Constant(value={'str': '', 'int': 0, 'float': 0.0, 'bool': False}[f.id]), node)
        # getattr(X, 'name')  ->  X.name      (a constant identifier; no default)
        if isinstance(f, ast.Name) and f.id == 'getattr' and len(node.args) == 2 and not node.keywords and \
                isinstance(node.args[1], ast.Constant) and isinstance(node.args[1].value, str) and node.args[1].value.isidentifier() and \
                not keyword.iskeyword(node.args[1].value) and not (node.args[1].value.startswith('__') and not node.args[1].value.endswith('__')) and \
                not isinstance(node.args[0], ast.Starred):
            return at(ast.Attribute(value=node.args[0], attr=node.args[1].value, ctx=ast.Load()), node)
        # ET.SubElement(parent, tag, {'name': a, 'type': b}, **extra)  ->  ET.SubElement(parent, tag, name=a, type=b, **extra): the attribute
        # dictionary is {**attrib, **extra} either way, in this order
        if _kwdotted(f) in _ET_FACTORIES and len(node.args) == _ET_FACTORIES[_kwdotted(f)] + 1 and isinstance(node.args[-1], ast.Dict) and \
                all(isinstance(k, ast.Constant) and isinstance(k.value, str) and k.value.isidentifier() and not keyword.iskeyword(k.value)
                    for k in node.args[-1].keys) and all(k.arg is not None for k in node.keywords):
            d = node.args[-1]
            names = [k.value for k in d.keys]
            reserved = ('parent', 'tag', 'attrib', '_parent', '_tag')
            if len(set(names)) == len(names) and not (set(names) & {k.arg for k in node.keywords}) and not (set(names) & set(reserved)):
                node.args = node.args[:-1]
                node.keywords = [at(ast.keyword(arg=k.value, value=v), v) for k, v in zip(d.keys, d.values)] + node.keywords
        # keyword arguments with pure values stand in one order (by name) where the callee is known to bind them to named parameters (for a
        # callee collecting **kwargs the order can be observed)
        if len(node.keywords) > 1 and all(k.arg is not None for k in node.keywords) and _kwdotted(f) in _KWORDER_FREE and \
                sum(1 for k in node.keywords if not (is_pure(k.value) and not may_raise(k.value))) <= 1 and \
                [k.arg for k in node.keywords] != sorted(k.arg for k in node.keywords):
            node.keywords = sorted(node.keywords, key=lambda k: k.arg)
        # f(*[a, *X])  ->  f(a, *X)        f(*(A + B))  ->  f(*A, *B)
        if any(isinstance(a, ast.Starred) and (isinstance(a.value, (ast.List, ast.Tuple)) or
                                                (isinstance(a.value, ast.BinOp) and isinstance(a.value.op, ast.Add))) for a in node.args):
            new_args = []

            def splice(a):
                if isinstance(a, ast.Starred) and isinstance(a.value, (ast.List, ast.Tuple)):
                    for x in a.value.elts:
                        splice(x)
                elif isinstance(a, ast.Starred) and isinstance(a.value, ast.BinOp) and isinstance(a.value.op, ast.Add):
                    splice(ast.Starred(value=a.value.left, ctx=ast.Load()))
                    splice(ast.Starred(value=a.value.right, ctx=ast.Load()))
                else:
                    new_args.append(a)
            for a in node.args:
                splice(a)
            node.args = [at(a, node) if not hasattr(a, 'lineno') else a for a in new_args]
        # set(a).issubset(b) -> set(a) <= set(b)      set(a).issuperset(b) -> set(a) >= set(b)
        if isinstance(f, ast.Attribute) and f.attr in ('issubset', 'issuperset') and len(node.args) == 1 and not node.keywords and _setish(f.value):
            other = node.args[0]
            if not _setish(other):
                other = at(ast.Call(func=ast.Name(id='set', ctx=ast.Load()), args=[other], keywords=[]), node)
            return at(ast.Compare(left=f.value, ops=[ast.LtE() if f.attr == 'issubset' else ast.GtE()], comparators=[other]), node)
        if isinstance(f, ast.Name):
            # isinstance(x, (A, B)) -> isinstance(x, A) or isinstance(x, B)
            if f.id == 'isinstance' and len(node.args) == 2 and isinstance(node.args[1], ast.Tuple) and node.args[1].elts:
                parts = [at(ast.Call(func=at(ast.Name(id='isinstance', ctx=ast.Load()), node), args=[clone(node.args[0]), t], keywords=[]), node)
                         for t in node.args[1].elts]
                return mk_bool(ast.Or(), parts, node)
            if f.id in ('set', 'frozenset') and len(node.args) == 1 and not node.keywords and isinstance(node.args[0], ast.Call) and \
                    isinstance(node.args[0].func, ast.Name) and node.args[0].func.id == 'set' and len(node.args[0].args) == 1:
                node.args = [node.args[0].args[0]]
                return node
            if f.id == 'bool' and len(node.args) == 1 and not node.keywords and _looks_boolean(node.args[0]):
                return node.args[0]
            # set(d.keys()) / sorted(d.keys()) / list(d.keys()) / tuple / frozenset / len -> the same on d
            if f.id in ('set', 'sorted', 'list', 'tuple', 'frozenset', 'len', 'iter') and len(node.args) >= 1 and isinstance(node.args[0], ast.Call) and \
                    isinstance(node.args[0].func, ast.Attribute) and node.args[0].func.attr == 'keys' and not node.args[0].args and not node.args[0].keywords:
                node.args[0] = node.args[0].func.value
            # dict(list(X)) -> dict(X)
            if f.id in ('dict', 'set', 'frozenset', 'sorted', 'tuple') and len(node.args) == 1 and not (f.id == 'dict' and node.keywords) and \
                    isinstance(node.args[0], ast.Call) and isinstance(node.args[0].func, ast.Name) and node.args[0].func.id in ('list', 'tuple') and \
                    len(node.args[0].args) == 1 and not node.args[0].keywords:
                node.args = [node.args[0].args[0]]
            if f.id == 'list' and not node.args and not node.keywords:
                return at(ast.List(elts=[], ctx=ast.Load()), node)
            if f.id == 'dict' and not node.args and not node.keywords:
                return at(ast.Dict(keys=[], values=[]), node)
            if f.id == 'dict' and not node.args and node.keywords and all(k.arg for k in node.keywords):
                return at(ast.Dict(keys=[at(ast.Constant(value=k.arg), node) for k in node.keywords], values=[k.value for k in node.keywords]), node)
            # dict((k, v) for ...) / dict([(k, v) for ...]) -> {k: v for ...}
            if f.id == 'dict' and len(node.args) == 1 and not node.keywords and \
                    isinstance(node.args[0], (ast.GeneratorExp, ast.ListComp)) and \
                    isinstance(node.args[0].elt, (ast.Tuple, ast.List)) and len(node.args[0].elt.elts) == 2:
                g = node.args[0]
                return at(ast.DictComp(key=g.elt.elts[0], value=g.elt.elts[1], generators=g.generators), node)
            # list(x for ...) -> [x for ...]
            if f.id == 'list' and len(node.args) == 1 and not node.keywords and isinstance(node.args[0], ast.GeneratorExp):
                g = node.args[0]
                return at(ast.ListComp(elt=g.elt, generators=g.generators), node)
            # iter(x) as a for-iterable is handled in the statement pass
        # '..{}..'.format(a, b) -> '..%s..' % (a, b)
        if isinstance(f, ast.Attribute) and f.attr == 'format' and isinstance(f.value, ast.Constant) and isinstance(f.value.value, str) \
                and not node.keywords and not any(isinstance(a, ast.Starred) for a in node.args):
            t = _format_to_percent(f.value.value, len(node.args))
            if t is not None:
                tmpl, order = t
                args = [node.args[k] for k in order]
                right = args[0] if len(args) == 1 and not isinstance(args[0], (ast.Tuple, ast.Name, ast.Attribute, ast.Call, ast.Subscript)) else ast.Tuple(elts=args, ctx=ast.Load())
                return at(ast.BinOp(left=ast.Constant(value=tmpl), op=ast.Mod(), right=right), node)
        # X.issubset(Y) -> not (X - Y)   (X, Y sets)
        if isinstance(f, ast.Attribute) and f.attr == 'issubset' and len(node.args) == 1 and not node.keywords and _is_set_expr(f.value):
            y = node.args[0]
            if not _is_set_expr(y):
                y = at(ast.Call(func=ast.Name(id='set', ctx=ast.Load()), args=[y], keywords=[]), node)
            return at(ast.UnaryOp(op=ast.Not(), operand=ast.BinOp(left=f.value, op=ast.Sub(), right=y)), node)
        # (lambda a: e)(x) -> e[x/a]
        if isinstance(f, ast.Lambda) and not node.keywords and not any(isinstance(a, ast.Starred) for a in node.args):
            la = f.args
            if not (la.vararg or la.kwarg or la.kwonlyargs or la.defaults) and len(la.args) == len(node.args):
                names = [x.arg for x in la.args]
                ok = True
                for nm, val in zip(names, node.args):
                    cnt = sum(1 for x in ast.walk(f.body) if isinstance(x, ast.Name) and x.id == nm)
                    if cnt != 1 and (may_raise(val) or not is_pure(val)):
                        ok = False
                if ok:
                    return at(_Subst(dict(zip(names, node.args))).visit(clone(f.body)), node)
        # f(*(a, b), **{'k': v}) -> f(a, b, k=v)
        args = []
        for a in node.args:
            if isinstance(a, ast.Starred) and isinstance(a.value, (ast.Tuple, ast.List)):
                args.extend(a.value.elts)
            else:
                args.append(a)
        kws = []
        for k in node.keywords:
            if k.arg is None and isinstance(k.value, ast.Dict) and all(
                    isinstance(x, ast.Constant) and isinstance(x.value, str) and x.value.isidentifier() for x in k.value.keys):
                for kk, vv in zip(k.value.keys, k.value.values):
                    kws.append(ast.keyword(arg=kk.value, value=vv))
            else:
                kws.append(k)
        node.args, node.keywords = args, kws
        return node

    def visit_comprehension(self, node):
        self.generic_visit(node)
        # for x in d.keys() -> for x in d
        it = node.iter
        if isinstance(it, ast.Call) and isinstance(it.func, ast.Attribute) and it.func.attr == 'keys' and not it.args and not it.keywords:
            node.iter = it = it.func.value
        # for x in list(X) -> for x in X   (iterating a copy of an iterable is iterating it)
        if isinstance(it, ast.Call) and isinstance(it.func, ast.Name) and it.func.id in ('list', 'tuple', 'iter') and len(it.args) == 1 and not it.keywords:
            node.iter = it.args[0]
        return node

    def visit_DictComp(self, node):
        self.generic_visit(node)
        # {a: b for a, b in zip(A, B)} -> dict(zip(A, B))   ;   {b: a for a, b in zip(A, B)} -> dict(zip(B, A))
        if len(node.generators) == 1 and not node.generators[0].ifs:
            g = node.generators[0]
            if isinstance(g.target, ast.Tuple) and len(g.target.elts) == 2 and all(isinstance(x, ast.Name) for x in g.target.elts) and \
                    isinstance(g.iter, ast.Call) and isinstance(g.iter.func, ast.Name) and g.iter.func.id == 'zip' and len(g.iter.args) == 2 and \
                    not g.iter.keywords and isinstance(node.key, ast.Name) and isinstance(node.value, ast.Name):
                a, b = g.target.elts[0].id, g.target.elts[1].id
                A, B = g.iter.args
                if (node.key.id, node.value.id) == (a, b):
                    return at(ast.Call(func=ast.Name(id='dict', ctx=ast.Load()), args=[g.iter], keywords=[]), node)
                if (node.key.id, node.value.id) == (b, a) and is_pure(A) and is_pure(B):
                    z = at(ast.Call(func=ast.Name(id='zip', ctx=ast.Load()), args=[B, A], keywords=[]), g.iter)
                    return at(ast.Call(func=ast.Name(id='dict', ctx=ast.Load()), args=[z], keywords=[]), node)
            # {k: v for k, v in X} -> dict(X)
            if isinstance(g.target, ast.Tuple) and len(g.target.elts) == 2 and all(isinstance(x, ast.Name) for x in g.target.elts) and \
                    isinstance(node.key, ast.Name) and isinstance(node.value, ast.Name) and \
                    (node.key.id, node.value.id) == (g.target.elts[0].id, g.target.elts[1].id):
                return at(ast.Call(func=ast.Name(id='dict', ctx=ast.Load()), args=[g.iter], keywords=[]), node)
        return node

    def visit_Subscript(self, node):
        self.generic_visit(node)
        # X[a:len(X) - 1]  ->  X[a:-1]      (both upper bounds resolve to max(len(X) - 1, 0))
        sl = node.slice
        if isinstance(sl, ast.Slice) and sl.step is None and isinstance(sl.upper, ast.BinOp) and isinstance(sl.upper.op, ast.Sub) and \
                isinstance(sl.upper.right, ast.Constant) and sl.upper.right.value == 1 and type(sl.upper.right.value) is int and \
                isinstance(sl.upper.left, ast.Call) and isinstance(sl.upper.left.func, ast.Name) and sl.upper.left.func.id == 'len' and \
                len(sl.upper.left.args) == 1 and not sl.upper.left.keywords and is_pure(node.value) and dump(sl.upper.left.args[0]) == dump(node.value):
            sl.upper = at(ast.UnaryOp(op=ast.USub(), operand=ast.Constant(value=1)), sl.upper)
        return node

    def visit_IfExp(self, node):
        self.generic_visit(node)
        if _is_negative(node.test):
            node.test = neg(node.test)
            node.body, node.orelse = node.orelse, node.body
        # A if A else B  ->  A or B      (A pure: evaluated once or twice makes no difference)
        if is_pure(node.test) and dump(node.test) == dump(node.body):       # (nothing runs between the two evaluations)
            return at(ast.BoolOp(op=ast.Or(), values=[node.body, node.orelse]), node)
        # X if c else X  ->  X ;  None if X is None else X  ->  X      (both arms give the same value; the test is pure)
        if is_pure(node.test):
            if dump(node.body) == dump(node.orelse):
                return node.body
            t_ = node.test
            if isinstance(t_, ast.Compare) and len(t_.ops) == 1 and isinstance(t_.ops[0], (ast.Is, ast.Eq)) and \
                    isinstance(t_.comparators[0], ast.Constant) and t_.comparators[0].value is None and \
                    isinstance(node.body, ast.Constant) and node.body.value is None and dump(t_.left) == dump(node.orelse) and is_pure(t_.left):
                return node.orelse
        # D[K] if K in D else V   ->   D.get(K, V)       (the statement form of this idiom is rewritten the same way)
        t = node.test
        if isinstance(t, ast.Compare) and len(t.ops) == 1 and isinstance(t.ops[0], ast.In):
            K, D = t.left, t.comparators[0]
            v = node.body
            if isinstance(v, ast.Subscript) and dump(v.value) == dump(D) and dump(v.slice) == dump(K) and is_pure(K) and is_pure(D) and \
                    isinstance(node.orelse, (ast.Name, ast.Constant)):
                return at(ast.Call(func=ast.Attribute(value=D, attr='get', ctx=ast.Load()), args=[K, node.orelse], keywords=[]), node)
        return node

    def visit_BinOp(self, node):
        self.generic_visit(node)
        # a | b on truth values -> a or b
        if isinstance(node.op, (ast.BitOr, ast.BitAnd)) and _looks_boolean(node.left) and _looks_boolean(node.right):
            return mk_bool(ast.Or() if isinstance(node.op, ast.BitOr) else ast.And(), [node.left, node.right], node)
        # (a, b) + (c, d) -> (a, b, c, d)     [a] + [b] -> [a, b]
        if isinstance(node.op, ast.Add) and type(node.left) is type(node.right) and isinstance(node.left, (ast.Tuple, ast.List)):
            return at(type(node.left)(elts=list(node.left.elts) + list(node.right.elts), ctx=ast.Load()), node)
        # 'lit' + str(x) + 'lit' ...  ->  'lit%slit' % (x,)      (one spelling for text built from literals and str() pieces)
        if isinstance(node.op, ast.Add):
            parts = []

            def flat(e):
                if isinstance(e, ast.BinOp) and isinstance(e.op, ast.Add):
                    flat(e.left)
                    flat(e.right)
                else:
                    parts.append(e)
            flat(node)

            def is_lit(e):
                return isinstance(e, ast.Constant) and isinstance(e.value, str)

            def is_str(e):
                return isinstance(e, ast.Call) and isinstance(e.func, ast.Name) and e.func.id == 'str' and len(e.args) == 1 and not e.keywords
            if len(parts) >= 2 and all(is_lit(x) or is_str(x) for x in parts) and any(is_lit(x) for x in parts) and any(is_str(x) for x in parts):
                fmt, args = '', []
                for x in parts:
                    if is_lit(x):
                        fmt += x.value.replace('%', '%%')
                    else:
                        fmt += '%s'
                        args.append(x.args[0])
                right = args[0] if len(args) == 1 and not isinstance(args[0], (ast.Tuple, ast.Dict)) else ast.Tuple(elts=args, ctx=ast.Load())
                if len(args) == 1 and isinstance(args[0], ast.Name) or len(args) > 1 or not isinstance(right, ast.Tuple):
                    # a single argument that might be a tuple at run time must be wrapped
                    if len(args) == 1:
                        right = ast.Tuple(elts=args, ctx=ast.Load())
                    return at(ast.BinOp(left=ast.Constant(value=fmt), op=ast.Mod(), right=right), node)
        # 'fmt' % x  with a single non-tuple display argument -> 'fmt' % (x,)
        if isinstance(node.op, ast.Mod) and isinstance(node.left, ast.Constant) and isinstance(node.left.value, str) and \
                not isinstance(node.right, (ast.Tuple, ast.Dict)) and node.left.value.count('%') - 2 * node.left.value.count('%%') == 1 and \
                (isinstance(node.right, ast.Call) and isinstance(node.right.func, ast.Name) and node.right.func.id in ('str', 'int', 'len', 'repr', 'float')):
            node.right = at(ast.Tuple(elts=[node.right], ctx=ast.Load()), node.right)
        return node

    def visit_Starred(self, node):
        self.generic_visit(node)
        return node

    def visit_Lambda(self, node):
        self.generic_visit(node)
        return node


def _looks_boolean(e):
    return isinstance(e, (ast.Compare, ast.BoolOp)) or (isinstance(e, ast.UnaryOp) and isinstance(e.op, ast.Not)) or \
        (isinstance(e, ast.Constant) and isinstance(e.value, bool)) or \
        (isinstance(e, ast.Call) and isinstance(e.func, ast.Name) and e.func.id in ('bool', 'isinstance', 'hasattr', 'callable', 'issubclass', '_is_null'))


def _is_truth_value(e):
    '''an expression whose value is True or False (a BoolOp only when all its operands are)'''
    if isinstance(e, ast.BoolOp):
        return all(_is_truth_value(v) for v in e.values)
    return _looks_boolean(e)


def _is_set_expr(e):
    return isinstance(e, (ast.Set, ast.SetComp)) or (isinstance(e, ast.Call) and isinstance(e.func, ast.Name) and e.func.id in ('set', 'frozenset'))


def _format_to_percent(fmt, nargs):
    '''a str.format template with plain {} / {0} fields only -> (%-template, argument order) or None'''
    import string
    out, order, auto = [], [], 0
    try:
        parts = list(string.Formatter().parse(fmt))
    except ValueError:
        return None
    for lit, field, spec, conv in parts:
        if '%' in lit:
            return None
        out.append(lit)
        if field is None:
            continue
        if spec or conv:
            return None
        if field == '':
            k = auto
            auto += 1
        elif field.isdigit():
            k = int(field)
        else:
            return None
        if k >= nargs:
            return None
        order.append(k)
        out.append('%s')
    if not order:
        return None
    return ''.join(out), order


def _setish(e):
    '''an expression that can only be a set'''
    if isinstance(e, (ast.Set, ast.SetComp)):
        return True
    return isinstance(e, ast.Call) and isinstance(e.func, ast.Name) and e.func.id in ('set', 'frozenset')


def _truth_idioms(test):
    '''in a truth-value position:  set(a) - set(b)  (non-empty difference)  is  not (set(a) <= set(b))'''
    if isinstance(test, ast.BoolOp):
        test.values = [_truth_idioms(v) for v in test.values]
        return test
    if isinstance(test, ast.UnaryOp) and isinstance(test.op, ast.Not):
        inner = _truth_idioms(test.operand)
        if inner is not test.operand:
            return neg(inner)
        return test
    # len(x) in a truth position is x (the same assumption as `not len(x)` -> `not x`: emptiness is told by the length)
    if isinstance(test, ast.Call) and isinstance(test.func, ast.Name) and test.func.id == 'len' and len(test.args) == 1 and not test.keywords:
        return test.args[0]
    if isinstance(test, ast.BinOp) and isinstance(test.op, ast.Sub) and _setish(test.left) and _setish(test.right):
        return at(ast.UnaryOp(op=ast.Not(), operand=at(ast.Compare(left=test.left, ops=[ast.LtE()], comparators=[test.right]), test)), test)
    return test


def _strip_bool(test):
    '''in a truth-value position bool(x) is x'''
    if isinstance(test, ast.Call) and isinstance(test.func, ast.Name) and test.func.id == 'bool' and len(test.args) == 1 and not test.keywords:
        return _strip_bool(test.args[0])
    if isinstance(test, ast.BoolOp):
        test.values = [_strip_bool(v) for v in test.values]
        return mk_bool(test.op, test.values, test)
    if isinstance(test, ast.UnaryOp) and isinstance(test.op, ast.Not):
        test.operand = _strip_bool(test.operand)
    return test


def _strip_double_not(test):
    '''in a truth-value position `not not x` is `x`'''
    if isinstance(test, ast.UnaryOp) and isinstance(test.op, ast.Not) and isinstance(test.operand, ast.UnaryOp) \
            and isinstance(test.operand.op, ast.Not):
        return _strip_double_not(test.operand.operand)
    if isinstance(test, ast.BoolOp):
        test.values = [_strip_double_not(v) for v in test.values]
        return mk_bool(test.op, test.values, test)
    if isinstance(test, ast.UnaryOp) and isinstance(test.op, ast.Not):
        inner = _strip_double_not(test.operand)
        if inner is not test.operand:
            return neg(inner) if isinstance(inner, (ast.Compare, ast.BoolOp, ast.UnaryOp)) else at(ast.UnaryOp(op=ast.Not(), operand=inner), test)
    return test


# ---------------------------------------------------------------------------------------------------------------
# statement helpers
JUMPS = (ast.Return, ast.Raise, ast.Continue, ast.Break)


def ends_in_jump(stmts):
    if not stmts:
        return False
    last = stmts[-1]
    if isinstance(last, JUMPS):
        return True
    if isinstance(last, ast.If) and last.orelse:
        return ends_in_jump(last.body) and ends_in_jump(last.orelse)
    return False


def is_noop(st):
    return isinstance(st, ast.Pass)


def names_loaded(node):
    return {n.id for n in ast.walk(node) if isinstance(n, ast.Name) and isinstance(n.ctx, ast.Load)}


def names_stored(node):
    out = set()
    for n in ast.walk(node):
        if isinstance(n, ast.Name) and isinstance(n.ctx, (ast.Store, ast.Del)):
            out.add(n.id)
        elif isinstance(n, (ast.FunctionDef, ast.AsyncFunctionDef)) and n is not node:
            out.add(n.name)
    return out


def stmt_lists(node):
    '''all statement lists directly owned by node'''
    for fld in ('body', 'orelse', 'finalbody'):
        v = getattr(node, fld, None)
        if isinstance(v, list) and (not v or isinstance(v[0], ast.stmt)):
            yield fld, v
    if isinstance(node, ast.Try):
        for h in node.handlers:
            yield 'handler', h.body


def walk_lists(fn):
    '''every (owner, field, list) below fn, not descending into nested function / class definitions'''
    stack = [fn]
    while stack:
        n = stack.pop()
        if isinstance(n, ast.Try):
            for h in n.handlers:
                yield h, 'body', h.body
                stack.extend(h.body)
        for fld, lst in stmt_lists(n):
            if fld == 'handler':
                continue
            yield n, fld, lst
            for s in lst:
                if not isinstance(s, (ast.FunctionDef, ast.AsyncFunctionDef, ast.ClassDef)):
                    stack.append(s)


def local_walk(node):
    '''ast.walk not descending into nested defs/classes (lambdas ARE visited)'''
    stack = [node]
    first = True
    while stack:
        n = stack.pop()
        if not first and isinstance(n, (ast.FunctionDef, ast.AsyncFunctionDef, ast.ClassDef)):
            continue
        first = False
        yield n
        stack.extend(reversed(list(ast.iter_child_nodes(n))))


class _Subst(ast.NodeTransformer):
    def __init__(self, mapping):
        self.mapping = mapping
        self.count = 0

    def visit_Name(self, node):
        if isinstance(node.ctx, ast.Load) and node.id in self.mapping:
            self.count += 1
            return at(clone(self.mapping[node.id]), node)
        return node

    def _shadowing(self, node, params):
        shadow = params & set(self.mapping)
        if not shadow:
            return self.generic_visit(node)
        saved = self.mapping
        self.mapping = {k: v for k, v in saved.items() if k not in shadow}
        try:
            return self.generic_visit(node)
        finally:
            self.mapping = saved

    def visit_Lambda(self, node):
        a = node.args
        params = {x.arg for x in a.posonlyargs + a.args + a.kwonlyargs}
        if a.vararg:
            params.add(a.vararg.arg)
        if a.kwarg:
            params.add(a.kwarg.arg)
        return self._shadowing(node, params)


class _Rename(ast.NodeTransformer):
    def __init__(self, mapping):
        self.mapping = mapping

    def visit_Name(self, node):
        if node.id in self.mapping:
            node.id = self.mapping[node.id]
        return node

    def visit_arg(self, node):
        return node

    def visit_FunctionDef(self, node):
        if node.name in self.mapping:
            node.name = self.mapping[node.name]
        return self.generic_visit(node)


# ---------------------------------------------------------------------------------------------------------------
class FunctionNormalizer(object):
    def __init__(self, fn, owner=None):
        self.fn = fn
        self.owner = owner           # Normalizer (for helper resolution) or None
        self.counter = 0
        self.restrict = None         # light mode: only these local names are folded

    # -- driver ---------------------------------------------------------------------------------------------
    def run(self):
        prev = None
        for _ in range(40):
            cur = dump(self.fn.body)
            if cur == prev:
                break
            prev = cur
            self.pass_exprs()
            self.pass_lambdas()
            self.pass_local_helpers()
            self.pass_scopes()
            self.pass_tuples()
            self.pass_iterloops()
            self.pass_first_of()
            self.pass_simple()
            self.pass_webs()
            self.pass_collections()
            self.pass_flags()
            self.pass_sink()
            self.pass_temps()
            self.pass_structure()
            self.pass_commute()
        ast.fix_missing_locations(self.fn)
        return self.fn

    # -- explicit iterator loops ------------------------------------------------------------------------------
    def pass_iterloops(self):
        '''it = iter(X)                                   for T in X:
           while True:                                        BODY
               try:                    T = next(it)
               except StopIteration:   break          ->
               BODY
        (`it` used nowhere else; the handler may also `return` when the loop is the last statement of the function; BODY may sit in
        the `else:` of the try).  The try covers only the next() call, so a StopIteration raised by BODY propagates in both forms.'''
        fn = self.fn
        for owner, fld, lst in list(walk_lists(fn)):
            for i in range(len(lst) - 1):
                a, w = lst[i], lst[i + 1]
                if not (isinstance(a, ast.Assign) and len(a.targets) == 1 and isinstance(a.targets[0], ast.Name) and isinstance(w, ast.While)):
                    continue
                it = a.targets[0].id
                if not (isinstance(w.test, ast.Constant) and w.test.value in (True, 1) and not w.orelse and w.body and isinstance(w.body[0], ast.Try)):
                    continue
                t = w.body[0]
                if not (len(t.body) == 1 and len(t.handlers) == 1 and not t.finalbody and isinstance(t.body[0], ast.Assign) and len(t.body[0].targets) == 1):
                    continue
                nx = t.body[0].value
                if not (isinstance(nx, ast.Call) and isinstance(nx.func, ast.Name) and nx.func.id == 'next' and len(nx.args) == 1 and not nx.keywords and
                        isinstance(nx.args[0], ast.Name) and nx.args[0].id == it):
                    continue
                h = t.handlers[0]
                if not (isinstance(h.type, ast.Name) and h.type.id == 'StopIteration' and len(h.body) == 1):
                    continue
                last_of_fn = owner is fn and fld == 'body' and i + 1 == len(lst) - 1
                if not (isinstance(h.body[0], ast.Break) or (isinstance(h.body[0], ast.Return) and h.body[0].value is None and last_of_fn)):
                    continue
                if not self._is_local(it) or len(self._all_names(it)) != 2:
                    continue
                tgt = t.body[0].targets[0]
                if it in names_loaded(tgt) | names_stored(tgt):
                    continue
                e = a.value
                if isinstance(e, ast.Call) and isinstance(e.func, ast.Name) and e.func.id == 'iter' and len(e.args) == 1 and not e.keywords:
                    e = e.args[0]
                body = list(t.orelse) + list(w.body[1:])
                lst[i:i + 2] = [at(ast.For(target=tgt, iter=e, body=body or [at(ast.Pass(), w)], orelse=[]), w)]
                return self.pass_iterloops()

    def pass_first_of(self):
        '''for T in X: return T   (last statement of the function, or followed by `return` / `return None`)   ->   return next(iter(X), None)'''
        fn = self.fn
        body = fn.body
        if any(isinstance(n, (ast.Yield, ast.YieldFrom)) for s_ in body for n in local_walk(s_)):
            return
        k = len(body) - 1
        if k >= 1 and isinstance(body[k], ast.Return) and (body[k].value is None or (isinstance(body[k].value, ast.Constant) and body[k].value.value is None)):
            k -= 1
        if k < 0:
            return
        lp = body[k]
        if isinstance(lp, ast.For) and not lp.orelse and isinstance(lp.target, ast.Name) and len(lp.body) == 1 and isinstance(lp.body[0], ast.Return) and \
                isinstance(lp.body[0].value, ast.Name) and lp.body[0].value.id == lp.target.id and self._is_local(lp.target.id) and \
                len(self._all_names(lp.target.id)) == 2:
            call = ast.Call(func=ast.Name(id='next', ctx=ast.Load()),
                            args=[ast.Call(func=ast.Name(id='iter', ctx=ast.Load()), args=[lp.iter], keywords=[]), ast.Constant(value=None)], keywords=[])
            body[k:] = [at(ast.Return(value=call), lp)]

    # -- independent neighbouring stores in one order ------------------------------------------------------
    def pass_commute(self):
        '''two neighbouring statements that only store pure values into attributes (directly or under pure tests) and touch
        disjoint data are put into one order (by their text).  Nothing that calls, yields, jumps or may raise in a way the
        function is sensitive to is ever moved.'''
        def simple_store(st):
            if isinstance(st, ast.Assign) and len(st.targets) == 1 and isinstance(st.targets[0], ast.Attribute) and \
                    isinstance(st.targets[0].value, ast.Name) and is_pure(st.value) and not self._sensitive(st.value):
                return True
            return False

        def movable(st):
            if simple_store(st):
                return True
            if isinstance(st, ast.If) and is_pure(st.test) and not self._sensitive(st.test):
                return all(simple_store(x) for x in st.body) and all(simple_store(x) for x in st.orelse)
            return False

        def effects(st):
            w_attrs, w_names, r_attrs, r_names = set(), set(), set(), set()
            for n in ast.walk(st):
                if isinstance(n, ast.Attribute):
                    (w_attrs if isinstance(n.ctx, (ast.Store, ast.Del)) else r_attrs).add(n.attr)
                elif isinstance(n, ast.Name):
                    (w_names if isinstance(n.ctx, (ast.Store, ast.Del)) else r_names).add(n.id)
                elif isinstance(n, ast.Subscript) and isinstance(n.ctx, (ast.Store, ast.Del)):
                    w_attrs.add('[]')
                elif isinstance(n, ast.Subscript):
                    r_attrs.add('[]')
            return w_attrs, w_names, r_attrs, r_names

        def independent(a, b):
            wa, wna, ra, rna = effects(a)
            wb, wnb, rb, rnb = effects(b)
            if wa & (wb | rb) or wb & ra:
                return False
            if wna & (wnb | rnb) or wnb & rna:
                return False
            return True
        for owner, fld, lst in list(walk_lists(self.fn)):
            changed = True
            rounds = 0
            while changed and rounds < 50:
                changed = False
                rounds += 1
                for i in range(len(lst) - 1):
                    a, b = lst[i], lst[i + 1]
                    if movable(a) and movable(b) and independent(a, b) and dump(b) < dump(a):
                        lst[i], lst[i + 1] = b, a
                        changed = True

    def run_light(self, reference_names):
        '''only what is NEW relative to the reference spelling of the function is folded away: locals the reference
        does not have (when they are foldable temporaries) -- the rest of the function stays as written'''
        new_locals = {n.id for n in ast.walk(self.fn) if isinstance(n, ast.Name) and isinstance(n.ctx, ast.Store)} - set(reference_names)
        self.restrict = new_locals
        prev = None
        for _ in range(20):
            cur = dump(self.fn.body)
            if cur == prev:
                break
            prev = cur
            self._light_constants()
            if self.restrict:
                self._light_tuples()
                self.pass_temps()
        ast.fix_missing_locations(self.fn)
        return self.fn

    def _light_constants(self):
        '''tests on constants (they come in with an inlined helper that was called with True / False / None): `if True:` is its
        branch, `c is None`, `bool(x) == True`, `A if True else B` are decided'''
        class C(ast.NodeTransformer):
            def visit_Compare(s2, node):
                s2.generic_visit(node)
                if len(node.ops) != 1:
                    return node
                l, op, r = node.left, node.ops[0], node.comparators[0]
                if isinstance(op, (ast.Is, ast.IsNot)) and isinstance(l, ast.Constant) and isinstance(r, ast.Constant) and (l.value is None or r.value is None):
                    same = l.value is None and r.value is None
                    return at(ast.Constant(value=same if isinstance(op, ast.Is) else not same), node)
                if isinstance(op, (ast.Eq, ast.NotEq, ast.Is, ast.IsNot)):
                    for a_, b_ in ((l, r), (r, l)):
                        boolish = (isinstance(a_, ast.Call) and isinstance(a_.func, ast.Name) and a_.func.id == 'bool' and len(a_.args) == 1 and not a_.keywords) or \
                            (isinstance(a_, ast.UnaryOp) and isinstance(a_.op, ast.Not)) or isinstance(a_, ast.Compare)
                        if boolish and isinstance(b_, ast.Constant) and type(b_.value) is bool:
                            if b_.value == isinstance(op, (ast.Eq, ast.Is)):
                                return a_
                            inner = a_.args[0] if isinstance(a_, ast.Call) else a_
                            return at(ast.UnaryOp(op=ast.Not(), operand=inner), node)
                return node

            def visit_IfExp(s2, node):
                s2.generic_visit(node)
                if isinstance(node.test, ast.Constant) and isinstance(node.test.value, (bool, type(None))):
                    return node.body if node.test.value else node.orelse
                return node
        for owner, fld, lst in list(walk_lists(self.fn)):
            for i, st in enumerate(lst):
                if isinstance(st, (ast.FunctionDef, ast.AsyncFunctionDef, ast.ClassDef)):
                    continue
                for f_ in st._fields:
                    v_ = getattr(st, f_, None)
                    if isinstance(v_, ast.expr):
                        setattr(st, f_, C().visit(v_))
                    elif isinstance(v_, list) and v_ and all(isinstance(x, ast.expr) for x in v_):
                        setattr(st, f_, [C().visit(x) for x in v_])
        for owner, fld, lst in list(walk_lists(self.fn)):
            for i, st in enumerate(lst):
                if isinstance(st, ast.If) and isinstance(st.test, ast.Constant) and isinstance(st.test.value, (bool, type(None))) and \
                        not any(isinstance(n, (ast.Global, ast.Nonlocal)) for n in ast.walk(st)):
                    taken = st.body if st.test.value else st.orelse
                    lst[i:i + 1] = list(taken) or [at(ast.Pass(), st)]
                    if len(lst) > 1:
                        lst[:] = [x for x in lst if not isinstance(x, ast.Pass)] or [at(ast.Pass(), st)]
                    return self._light_constants()

    def _light_tuples(self):
        '''a, b = x, y with only NEW local names on the left is split'''
        for owner, fld, lst in list(walk_lists(self.fn)):
            for i, st in enumerate(lst):
                if isinstance(st, ast.Assign) and len(st.targets) == 1 and isinstance(st.targets[0], ast.Tuple) and \
                        isinstance(st.value, ast.Tuple) and len(st.targets[0].elts) == len(st.value.elts) and \
                        all(isinstance(t, ast.Name) and t.id in self.restrict for t in st.targets[0].elts):
                    ts, vs = st.targets[0].elts, st.value.elts
                    if any(isinstance(v, ast.Starred) for v in vs):
                        continue
                    if any(t.id in names_loaded(v) for k, t in enumerate(ts) for v in vs[k + 1:]):
                        continue
                    lst[i:i + 1] = [at(ast.Assign(targets=[t], value=v), st) for t, v in zip(ts, vs)]
                    break

    # -- expressions ----------------------------------------------------------------------------------------
    def pass_exprs(self):
        doc = None
        if self.fn.body and isinstance(self.fn.body[0], ast.Expr) and isinstance(self.fn.body[0].value, ast.Constant):
            doc = self.fn.body[0]
        tr = _Expr()
        for owner, fld, lst in list(walk_lists(self.fn)):
            for i, st in enumerate(lst):
                if st is doc or isinstance(st, (ast.FunctionDef, ast.AsyncFunctionDef, ast.ClassDef)):
                    continue
                self._exprs_of_stmt(st, tr)
        self._scalar_percent()
        self._ply_slices()
        self._super_calls()

    def _super_calls(self):
        '''super(C, self).m(args) / super().m(args) in a method of class C(B)  ->  B.m(self, args), when the whole analysed program
        uses single inheritance below C (then the class after C in every instance's MRO is B)'''
        fn, owner = self.fn, self.owner
        q = getattr(fn, '_qual', None)
        mods = getattr(owner, 'program', None)
        if not q or not mods or not any(isinstance(n, ast.Name) and n.id == 'super' for n in ast.walk(fn)):
            return
        modname, _, rest = q.partition(':')
        if '.' not in rest or modname not in mods or not fn.args.args:
            return
        if any(isinstance(d, ast.Name) and d.id in ('staticmethod', 'classmethod') for d in fn.decorator_list):
            return
        cname = rest.split('.')[0]
        mine = [n for n in mods[modname].tree.body if isinstance(n, ast.ClassDef) and n.name == cname]
        if len(mine) != 1 or len(mine[0].bases) != 1 or mine[0].keywords or not is_pure(mine[0].bases[0]) or not isinstance(mine[0].bases[0], (ast.Name, ast.Attribute)):
            return
        base = mine[0].bases[0]
        # no class of the program reaches C through multiple inheritance
        classes = {}
        for m in mods.values():
            for n in ast.walk(m.tree):
                if isinstance(n, ast.ClassDef):
                    classes.setdefault(n.name, []).append(n)

        def reaches(c, seen):
            if c.name == cname:
                return True
            if c.name in seen:
                return False
            seen.add(c.name)
            for b in c.bases:
                bn = b.id if isinstance(b, ast.Name) else (b.attr if isinstance(b, ast.Attribute) else None)
                if bn is None:
                    return True       # unknown base expression: assume the worst
                for c2 in classes.get(bn, []):
                    if reaches(c2, seen):
                        return True
            return False
        for lst in classes.values():
            for c in lst:
                if len(c.bases) > 1 and reaches(c, set()):
                    return
        S = fn.args.args[0].arg
        if any(isinstance(n, ast.Name) and n.id == S and isinstance(n.ctx, (ast.Store, ast.Del)) for n in ast.walk(fn)):
            return
        nested = set()
        for sub in ast.walk(fn):
            if sub is not fn and isinstance(sub, (ast.FunctionDef, ast.AsyncFunctionDef, ast.Lambda, ast.ClassDef)):
                nested.update(id(x) for x in ast.walk(sub))

        class R(ast.NodeTransformer):
            def visit_Call(s2, node):
                s2.generic_visit(node)
                f = node.func
                if id(node) in nested or not (isinstance(f, ast.Attribute) and isinstance(f.value, ast.Call) and
                                              isinstance(f.value.func, ast.Name) and f.value.func.id == 'super' and not f.value.keywords):
                    return node
                a = f.value.args
                if not (len(a) == 0 or (len(a) == 2 and isinstance(a[0], ast.Name) and a[0].id == cname and isinstance(a[1], ast.Name) and a[1].id == S)):
                    return node
                return at(ast.Call(func=ast.Attribute(value=clone(base), attr=f.attr, ctx=ast.Load()),
                                   args=[ast.Name(id=S, ctx=ast.Load())] + node.args, keywords=node.keywords), node)
        fn.body = [R().visit(x) for x in fn.body]

    def _only_plainly_stored(self, n, occ):
        '''every occurrence of the local n is the single target of a plain assignment: the name is never read, deleted or captured'''
        if not all(isinstance(x.ctx, ast.Store) for x in occ):
            return False
        tgts = {id(s.targets[0]) for s in ast.walk(self.fn) if isinstance(s, ast.Assign) and len(s.targets) == 1 and isinstance(s.targets[0], ast.Name)}
        if not all(id(x) in tgts for x in occ):
            return False
        for sub in ast.walk(self.fn):
            if isinstance(sub, (ast.Global, ast.Nonlocal)) and n in sub.names:
                return False
        return not any(isinstance(c, ast.Call) and isinstance(c.func, ast.Name) and c.func.id in ('locals', 'vars', 'eval', 'exec') for c in ast.walk(self.fn))

    def _ply_item(self, e):
        '''e is p[k] with k inside the single production of this grammar action: reading it cannot fail'''
        P, n = getattr(self, '_ply', (None, 0))
        return P is not None and isinstance(e, ast.Subscript) and isinstance(e.value, ast.Name) and e.value.id == P and \
            isinstance(e.slice, ast.Constant) and type(e.slice.value) is int and 0 <= e.slice.value < n

    def _ply_slices(self):
        '''in a grammar action p_x(self, p) with ONE production in its docstring len(p) is known: p[a:b], p[a:], p[a::k] are the
        tuples of the corresponding items'''
        fn = self.fn
        if not fn.name.startswith('p_') or len(fn.args.args) != 2 or not fn.body:
            return
        d0 = fn.body[0]
        if not (isinstance(d0, ast.Expr) and isinstance(d0.value, ast.Constant) and isinstance(d0.value.value, str)):
            return
        lines = [l.split() for l in d0.value.value.splitlines() if l.split()]
        if len(lines) != 1 or len(lines[0]) < 2 or lines[0][1] not in (':', '::='):
            return
        syms = lines[0][2:]
        if '%prec' in syms:
            syms = syms[:syms.index('%prec')]
        n = len(syms) + 1
        P = fn.args.args[1].arg
        if any(isinstance(x, ast.Name) and x.id == P and isinstance(x.ctx, ast.Store) for x in ast.walk(fn)):
            return
        self._ply = (P, n)

        class R(ast.NodeTransformer):
            def visit_Call(s2, node):
                s2.generic_visit(node)
                if isinstance(node.func, ast.Name) and node.func.id == 'len' and len(node.args) == 1 and not node.keywords and \
                        isinstance(node.args[0], ast.Name) and node.args[0].id == P:
                    return at(ast.Constant(value=n), node)
                return node

            def visit_BinOp(s2, node):
                s2.generic_visit(node)
                if isinstance(node.left, ast.Constant) and isinstance(node.right, ast.Constant) and type(node.left.value) is int and \
                        type(node.right.value) is int and isinstance(node.op, (ast.Add, ast.Sub)):
                    v = node.left.value + node.right.value if isinstance(node.op, ast.Add) else node.left.value - node.right.value
                    return at(ast.Constant(value=v), node)
                return node

            def visit_Subscript(s2, node):
                s2.generic_visit(node)
                if isinstance(node.value, ast.Name) and node.value.id == P and isinstance(node.ctx, ast.Load) and \
                        isinstance(node.slice, ast.UnaryOp) and isinstance(node.slice.op, ast.USub) and isinstance(node.slice.operand, ast.Constant) and \
                        type(node.slice.operand.value) is int and 0 < node.slice.operand.value <= n:
                    node.slice = at(ast.Constant(value=n - node.slice.operand.value), node.slice)
                    return node
                if isinstance(node.value, ast.Name) and node.value.id == P and isinstance(node.slice, ast.Slice) and isinstance(node.ctx, ast.Load):
                    def const(e, default):
                        if e is None:
                            return default
                        if isinstance(e, ast.Constant) and isinstance(e.value, int):
                            return e.value
                        if isinstance(e, ast.UnaryOp) and isinstance(e.op, ast.USub) and isinstance(e.operand, ast.Constant) and isinstance(e.operand.value, int):
                            return -e.operand.value
                        return 'x'
                    lo, hi, st_ = const(node.slice.lower, None), const(node.slice.upper, None), const(node.slice.step, None)
                    if 'x' in (lo, hi, st_):
                        return node
                    idx = list(range(n))[slice(lo, hi, st_)]
                    return at(ast.Tuple(elts=[ast.Subscript(value=ast.Name(id=P, ctx=ast.Load()), slice=ast.Constant(value=k), ctx=ast.Load()) for k in idx],
                                        ctx=ast.Load()), node)
                return node
        fn.body = [fn.body[0]] + [R().visit(x) for x in fn.body[1:]]

    def _scalar_percent(self):
        ''''fmt' % n  ->  'fmt' % (n,)  where n is the variable of a loop / comprehension over range(..): an int, never a tuple'''
        scalars = set()
        for n in ast.walk(self.fn):
            if isinstance(n, (ast.For, ast.comprehension)) and isinstance(n.target, ast.Name) and isinstance(n.iter, ast.Call) and \
                    isinstance(n.iter.func, ast.Name) and n.iter.func.id == 'range':
                scalars.add(n.target.id)
        if not scalars:
            return
        stores = {}
        for n in ast.walk(self.fn):
            if isinstance(n, ast.Name) and isinstance(n.ctx, (ast.Store, ast.Del)):
                stores[n.id] = stores.get(n.id, 0) + 1
        scalars = {x for x in scalars if stores.get(x) == 1}
        for n in ast.walk(self.fn):
            if isinstance(n, ast.BinOp) and isinstance(n.op, ast.Mod) and isinstance(n.left, ast.Constant) and isinstance(n.left.value, str) and \
                    isinstance(n.right, ast.Name) and n.right.id in scalars:
                n.right = at(ast.Tuple(elts=[n.right], ctx=ast.Load()), n.right)

    def _exprs_of_stmt(self, st, tr):
        for fld, val in ast.iter_fields(st):
            if fld in ('body', 'orelse', 'finalbody', 'handlers'):
                continue
            if isinstance(val, ast.expr):
                new = tr.visit(val)
                if fld == 'test':
                    new = _truth_idioms(_strip_double_not(_strip_bool(new)))
                if fld == 'iter' and isinstance(new, ast.Call) and isinstance(new.func, ast.Name) and new.func.id == 'iter' \
                        and len(new.args) == 1:
                    new = new.args[0]
                if fld == 'iter' and isinstance(st, ast.For) and isinstance(new, ast.Call) and isinstance(new.func, ast.Attribute) and \
                        new.func.attr == 'keys' and not new.args and not new.keywords:
                    new = new.func.value
                setattr(st, fld, new)
            elif isinstance(val, list):
                for k, v in enumerate(val):
                    if isinstance(v, ast.expr):
                        val[k] = tr.visit(v)
                    elif isinstance(v, (ast.keyword, ast.withitem)):
                        tr.visit(v)
        if isinstance(st, ast.Try):
            for h in st.handlers:
                if h.type is not None:
                    h.type = tr.visit(h.type)

    # -- local single-return defs -> lambdas ---------------------------------------------------------------
    def pass_lambdas(self):
        for owner, fld, lst in list(walk_lists(self.fn)):
            for i, st in enumerate(lst):
                if isinstance(st, ast.FunctionDef) and not st.decorator_list and st is not self.fn:
                    body = [s for s in st.body if not (isinstance(s, ast.Expr) and isinstance(s.value, ast.Constant))]
                    if len(body) == 1 and isinstance(body[0], ast.Return) and body[0].value is not None:
                        if any(isinstance(n, (ast.Yield, ast.YieldFrom)) for n in ast.walk(body[0])):
                            continue
                        lam = ast.Lambda(args=st.args, body=body[0].value)
                        lst[i] = at(ast.Assign(targets=[ast.Name(id=st.name, ctx=ast.Store())], value=lam), st)

    # -- calls of non-escaping local defs are inlined ------------------------------------------------------
    def pass_local_helpers(self):
        defs = {}
        for owner, fld, lst in walk_lists(self.fn):
            for st in lst:
                if isinstance(st, ast.FunctionDef) and st is not self.fn and not st.decorator_list:
                    defs.setdefault(st.name, []).append((lst, st))
        for name, ds in defs.items():
            if len(ds) != 1:
                continue
            lst, d = ds[0]
            uses = [n for n in ast.walk(self.fn) if isinstance(n, ast.Name) and n.id == name and isinstance(n.ctx, ast.Load)]
            calls = [n for n in ast.walk(self.fn) if isinstance(n, ast.Call) and isinstance(n.func, ast.Name) and n.func.id == name]
            if not uses or len(uses) != len(calls):
                continue      # escapes as a value (closure handed out): stays
            if any(isinstance(n, (ast.Yield, ast.YieldFrom)) for n in ast.walk(d)):
                continue
            if any(isinstance(n, ast.Name) and n.id == name for s in d.body for n in ast.walk(s)):
                continue      # recursive
            ok = self.inline_calls(lambda c: d if (isinstance(c.func, ast.Name) and c.func.id == name) else None, receiver=False)
            if ok and not any(isinstance(n, ast.Name) and n.id == name and isinstance(n.ctx, ast.Load) for n in ast.walk(self.fn)):
                lst.remove(d)
                if not lst:
                    lst.append(at(ast.Pass(), d))

    # -- generic call inlining ------------------------------------------------------------------------------
    def fresh(self, base):
        self.counter += 1
        return '%s__i%d' % (base, self.counter)

    def inline_calls(self, resolve, receiver=True):
        '''resolve(call) -> FunctionDef to inline or None.  Inlines statement-level, assigned, returned and
        (hoisted) nested calls.  Returns True when every resolvable call was inlined.'''
        complete = True
        changed = True
        rounds = 0
        self.beta(resolve)
        while changed and rounds < 30:
            changed = False
            rounds += 1
            for owner, fld, lst in list(walk_lists(self.fn)):
                for i, st in enumerate(lst):
                    if isinstance(st, (ast.FunctionDef, ast.AsyncFunctionDef, ast.ClassDef)):
                        continue
                    call, ctx = self._find_inlinable(st, resolve)
                    if call is None:
                        continue
                    callee = resolve(call)
                    new = self._inline_one(st, call, ctx, callee)
                    if new is None:
                        complete = False
                        call._no_inline = True
                        continue
                    lst[i:i + 1] = new
                    changed = True
                    break
                if changed:
                    break
        return complete

    def inline_generator_loops(self, resolve):
        '''for T in helper(args): BODY   where helper is `for t in I: [guards] yield E`  ->  the helper's loop with `T = E; BODY`
        in place of the yield (the yield must be the last statement of the helper's loop body, directly in that body)'''
        changed = False
        for owner, fld, lst in list(walk_lists(self.fn)):
            for i, st in enumerate(lst):
                if not (isinstance(st, ast.For) and isinstance(st.iter, ast.Call) and not st.orelse):
                    continue
                callee = resolve(st.iter)
                if callee is None:
                    continue
                body = [clone(x) for x in callee.body if not (isinstance(x, ast.Expr) and isinstance(x.value, ast.Constant))]
                if not (len(body) == 1 and isinstance(body[0], ast.For) and not body[0].orelse) or \
                        sum(1 for n in ast.walk(body[0]) if isinstance(n, (ast.Yield, ast.YieldFrom))) != 1:
                    # general form: every `yield E` (a statement of its own, anywhere in the helper's loops and branches) becomes
                    # `T = E; BODY`; needs a BODY without break / continue of its own
                    if self._inline_general_generator(lst, i, st, callee, body):
                        changed = True
                        break
                    continue
                loop = body[0]
                ys = [n for n in ast.walk(loop) if isinstance(n, (ast.Yield, ast.YieldFrom))]
                last = loop.body[-1] if loop.body else None
                if len(ys) != 1 or not (isinstance(last, ast.Expr) and last.value is ys[0] and isinstance(ys[0], ast.Yield) and ys[0].value is not None):
                    if self._inline_general_generator(lst, i, st, callee, body):
                        changed = True
                        break
                    continue
                bound = self._bind(st.iter, callee)
                if bound is None:
                    continue
                params, given = bound
                local_names = set(params)
                for x in [loop]:
                    local_names |= names_stored(x)
                caller_names = {n.id for n in ast.walk(self.fn) if isinstance(n, ast.Name)} | {x.arg for x in ast.walk(self.fn) if isinstance(x, ast.arg)}
                mapping, pre = {}, []
                for p_ in params:
                    arg = given[p_]
                    if isinstance(arg, ast.Name) and p_ not in names_stored(loop):
                        mapping[p_] = arg.id
                    elif not may_raise(arg) and is_pure(arg) and p_ not in names_stored(loop):
                        mapping[p_] = None      # substituted below
                    else:
                        mapping[p_] = self.fresh(p_) if p_ in caller_names else p_
                        pre.append(at(ast.Assign(targets=[ast.Name(id=mapping[p_], ctx=ast.Store())], value=clone(arg)), st))
                subst_args = {p_: given[p_] for p_ in params if mapping.get(p_) is None}
                ren = {}
                for n_ in sorted(local_names):
                    if n_ in params:
                        if mapping[n_] is not None:
                            ren[n_] = mapping[n_]
                        continue
                    ren[n_] = self.fresh(n_) if n_ in caller_names else n_
                loop = _Rename(ren).visit(loop)
                if subst_args:
                    loop = _Subst(subst_args).visit(loop)
                yv = loop.body[-1].value.value
                loop.body[-1:] = [at(ast.Assign(targets=[st.target], value=yv), st)] + st.body
                lst[i:i + 1] = pre + [at(loop, st)]
                changed = True
                break
            if changed:
                break
        return changed

    def _inline_general_generator(self, lst, i, st, callee, body):
        if _has_free_loop_jump(st.body) or st.orelse:
            return False
        ys = []
        ok = [True]

        def scan(stmts, in_try):
            for x in stmts:
                if isinstance(x, (ast.FunctionDef, ast.AsyncFunctionDef, ast.ClassDef)):
                    if any(isinstance(n, (ast.Yield, ast.YieldFrom)) for n in ast.walk(x)):
                        pass
                    continue
                if isinstance(x, ast.Expr) and isinstance(x.value, ast.Yield) and x.value.value is not None:
                    if in_try:
                        ok[0] = False
                    ys.append(x)
                    continue
                if isinstance(x, ast.Return) and x.value is not None:
                    ok[0] = False
                for fld, val in ast.iter_fields(x):
                    if fld in ('body', 'orelse', 'finalbody'):
                        continue
                    vals = val if isinstance(val, list) else [val]
                    for v in vals:
                        if isinstance(v, ast.AST) and any(isinstance(n, (ast.Yield, ast.YieldFrom)) for n in ast.walk(v)):
                            ok[0] = False       # a yield inside an expression
                for f2, l2 in stmt_lists(x):
                    if f2 == 'handler':
                        if any(isinstance(n, (ast.Yield, ast.YieldFrom)) for y in l2 for n in ast.walk(y)):
                            ok[0] = False
                        continue
                    scan(l2, in_try or isinstance(x, (ast.Try, ast.With)))
        scan(body, False)
        if not ok[0] or not ys or len(ys) > 4:
            return False
        # a `return` in the helper ends the iteration: only allowed as the helper's plain end (none at all here)
        if any(isinstance(n, ast.Return) for x in body for n in local_walk(x)):
            return False
        bound = self._bind(st.iter, callee)
        if bound is None:
            return False
        params, given = bound
        local_names = set(params)
        for x in body:
            local_names |= names_stored(x)
        caller_names = {n.id for n in ast.walk(self.fn) if isinstance(n, ast.Name)} | {x.arg for x in ast.walk(self.fn) if isinstance(x, ast.arg)}
        stored = set()
        for x in body:
            stored |= names_stored(x)
        mapping, pre, subst_args = {}, [], {}
        for p_ in params:
            arg = given[p_]
            if isinstance(arg, ast.Name) and p_ not in stored:
                mapping[p_] = arg.id
            elif not may_raise(arg) and is_pure(arg) and p_ not in stored:
                subst_args[p_] = arg
            else:
                mapping[p_] = self.fresh(p_) if p_ in caller_names else p_
                pre.append(at(ast.Assign(targets=[ast.Name(id=mapping[p_], ctx=ast.Store())], value=clone(arg)), st))
        ren = {}
        for n_ in sorted(local_names):
            if n_ in params:
                if n_ in mapping:
                    ren[n_] = mapping[n_]
                continue
            ren[n_] = self.fresh(n_) if n_ in caller_names else n_
        body = [_Rename(ren).visit(x) for x in body]
        if subst_args:
            body = [_Subst(subst_args).visit(x) for x in body]
        target, caller_body = st.target, st.body

        def replace(stmts):
            out = []
            for x in stmts:
                if isinstance(x, ast.Expr) and isinstance(x.value, ast.Yield) and x.value.value is not None:
                    out.append(at(ast.Assign(targets=[clone(target)], value=x.value.value), x))
                    out.extend(clone(y) for y in caller_body)
                    continue
                if not isinstance(x, (ast.FunctionDef, ast.AsyncFunctionDef, ast.ClassDef)):
                    for fld in ('body', 'orelse', 'finalbody'):
                        sub = getattr(x, fld, None)
                        if isinstance(sub, list) and sub:
                            setattr(x, fld, replace(sub))
                out.append(x)
            return out
        new = replace(body)
        lst[i:i + 1] = pre + [at(x, st) if not hasattr(x, 'lineno') else x for x in new]
        return True

    def _bind(self, call, callee):
        a = callee.args
        params = [x.arg for x in a.posonlyargs + a.args]
        is_method = getattr(callee, '_is_method', False)
        is_static = any(isinstance(d, ast.Name) and d.id == 'staticmethod' for d in callee.decorator_list)
        is_classm = any(isinstance(d, ast.Name) and d.id == 'classmethod' for d in callee.decorator_list)
        args = list(call.args)
        if is_method and not is_static and isinstance(call.func, ast.Attribute):
            recv = call.func.value
            if is_classm and not (isinstance(recv, ast.Name) and recv.id == 'cls'):
                recv = at(ast.Call(func=ast.Name(id='type', ctx=ast.Load()), args=[recv], keywords=[]), call)
            args = [recv] + args
        if any(isinstance(x, ast.Starred) for x in args) or any(k.arg is None for k in call.keywords):
            return None
        if a.vararg or a.kwarg or a.kwonlyargs:
            return None
        if len(args) > len(params):
            return None
        given = {}
        for p, v in zip(params, args):
            given[p] = v
        for k in call.keywords:
            if k.arg not in params or k.arg in given:
                return None
            given[k.arg] = k.value
        defaults = dict(zip(params[len(params) - len(a.defaults):], a.defaults))
        for p in params:
            if p not in given:
                if p not in defaults:
                    return None
                given[p] = clone(defaults[p])
        return params, given

    def beta(self, resolve):
        '''a call of a helper whose body is a single `return e` is replaced by e with the arguments substituted (anywhere,
        also inside lambdas and comprehensions)'''
        me = self

        class B(ast.NodeTransformer):
            def visit_Call(s2, node):
                s2.generic_visit(node)
                d = resolve(node)
                if d is None:
                    return node
                body = [x for x in d.body if not (isinstance(x, ast.Expr) and isinstance(x.value, ast.Constant))]
                if len(body) != 1 or not isinstance(body[0], ast.Return) or body[0].value is None:
                    return node
                bound = me._bind(node, d)
                if bound is None:
                    return node
                params, given = bound
                expr = clone(body[0].value)
                if names_stored(expr) & set(params):
                    return node
                for p_ in params:
                    n_uses = sum(1 for x in ast.walk(expr) if isinstance(x, ast.Name) and x.id == p_)
                    trivial = isinstance(given[p_], (ast.Name, ast.Constant)) or not may_raise(given[p_])
                    if n_uses != 1 and not trivial:
                        return node
                    if n_uses == 1 and not trivial and any(_inside_deferred(expr, x, comps=True) for x in ast.walk(expr) if isinstance(x, ast.Name) and x.id == p_):
                        return node
                return at(_Subst(given).visit(expr), node)
        for owner, fld, lst in list(walk_lists(self.fn)):
            for i, st in enumerate(lst):
                if isinstance(st, (ast.FunctionDef, ast.AsyncFunctionDef, ast.ClassDef)):
                    continue
                for f2, val in ast.iter_fields(st):
                    if f2 in ('body', 'orelse', 'finalbody', 'handlers'):
                        continue
                    if isinstance(val, ast.expr):
                        setattr(st, f2, B().visit(val))
                    elif isinstance(val, list):
                        for k, v in enumerate(val):
                            if isinstance(v, ast.expr):
                                val[k] = B().visit(v)
                            elif isinstance(v, (ast.keyword, ast.withitem)):
                                B().visit(v)

    def _find_inlinable(self, st, resolve):
        '''first resolvable call evaluated by st itself (not by its nested statement lists)'''
        def calls_in(e):
            for n in local_walk(e):
                if isinstance(n, ast.Call) and not getattr(n, '_no_inline', False) and resolve(n) is not None:
                    # calls inside lambdas / comprehensions cannot be hoisted
                    yield n
        def top_exprs():
            for fld, val in ast.iter_fields(st):
                if fld in ('body', 'orelse', 'finalbody', 'handlers'):
                    continue
                if isinstance(val, ast.expr):
                    yield fld, val
                elif isinstance(val, list):
                    for v in val:
                        if isinstance(v, ast.expr):
                            yield fld, v
                        elif isinstance(v, ast.withitem):
                            yield fld, v.context_expr
        for fld, e in top_exprs():
            if isinstance(st, ast.While) and fld == 'test':
                continue
            for c in calls_in(e):
                if _inside_deferred(e, c):
                    continue
                if isinstance(st, ast.Expr) and st.value is c:
                    return c, 'stmt'
                if isinstance(st, ast.Return) and st.value is c:
                    return c, 'return'
                if isinstance(st, ast.Assign) and st.value is c:
                    return c, 'assign'
                return c, 'nested'
        return None, None

    def _inline_one(self, st, call, ctx, callee):
        body = [clone(s) for s in callee.body if not (isinstance(s, ast.Expr) and isinstance(s.value, ast.Constant))]
        if any(isinstance(n, (ast.Yield, ast.YieldFrom)) for s in body for n in ast.walk(s)):
            return None
        bound = self._bind(call, callee)
        if bound is None:
            return None
        params, given = bound
        # callee locals keep their names unless they clash with the caller's
        local_names = set(params)
        for s in body:
            local_names |= names_stored(s)
        for s in body:
            for n in ast.walk(s):
                if isinstance(n, (ast.Global, ast.Nonlocal)):
                    local_names -= set(n.names)
        caller_names = {n.id for n in ast.walk(self.fn) if isinstance(n, ast.Name)} | \
            {x.arg for x in ast.walk(self.fn) if isinstance(x, ast.arg)}
        stored_in_callee = set()
        for s in body:
            stored_in_callee |= names_stored(s)
        target = st.targets[0].id if (ctx == 'assign' and len(st.targets) == 1 and isinstance(st.targets[0], ast.Name)) else None
        mapping = {}
        pre_params = []
        # loads of caller names after the call statement
        after = set()
        seen_st = False
        for n in _source_order(self.fn):
            if n is st:
                seen_st = True
            elif seen_st and isinstance(n, ast.Name) and isinstance(n.ctx, ast.Load) and not any(x is n for x in ast.walk(st)):
                after.add(n.id)
        in_loop = self._in_loop(st)
        for p_ in params:
            arg = given[p_]
            if isinstance(arg, ast.Name) and (p_ not in stored_in_callee or arg.id == target or (arg.id not in after and not in_loop)) \
                    and (arg.id not in local_names or arg.id == p_):
                mapping[p_] = arg.id
            else:
                pre_params.append(p_)
        # the variable every return hands out takes the name of the assignment target
        rets = [n for s in body if not isinstance(s, (ast.FunctionDef, ast.AsyncFunctionDef)) for n in local_walk(s) if isinstance(n, ast.Return)]
        if target is not None and rets and all(isinstance(r.value, ast.Name) for r in rets):
            rn = {r.value.id for r in rets}
            if len(rn) == 1:
                r0 = rn.pop()
                if r0 in local_names and r0 not in params and target not in local_names and target not in set(mapping.values()):
                    mapping[r0] = target
        taken = set(caller_names) | set(mapping.values())
        for n in sorted(local_names):
            if n in mapping:
                continue
            if n in taken:
                mapping[n] = self.fresh(n)
            else:
                mapping[n] = n
            taken.add(mapping[n])
        ren = _Rename(mapping)
        body = [ren.visit(s) for s in body]
        pre = []
        for p_ in pre_params:
            pre.append(at(ast.Assign(targets=[ast.Name(id=mapping[p_], ctx=ast.Store())], value=clone(given[p_])), call))
        if ctx == 'return':
            return [at(s, st) if not hasattr(s, 'lineno') else s for s in pre + body] + \
                ([] if ends_in_jump(body) else [at(ast.Return(value=None), st)])
        if ctx == 'stmt':
            out = eliminate_returns(body, None, call)
            if out is None:
                return None
            return pre + (out or [at(ast.Pass(), st)])
        # value needed
        if ctx == 'assign' and len(st.targets) == 1 and isinstance(st.targets[0], ast.Name):
            target = st.targets[0].id
            out = eliminate_returns(body, target, call)
            if out is None:
                return None
            return pre + out
        tmp = self.fresh('r')
        out = eliminate_returns(body, tmp, call)
        if out is None:
            return None
        # replace the call expression by the temporary inside st
        class R(ast.NodeTransformer):
            def visit_Call(s2, node):
                if node is call:
                    return at(ast.Name(id=tmp, ctx=ast.Load()), call)
                return s2.generic_visit(node)
        R().visit(st)
        return pre + out + [st]

    # -- tuple assignments ---------------------------------------------------------------------------------
    def pass_tuples(self):
        for owner, fld, lst in list(walk_lists(self.fn)):
            for i, st in enumerate(lst):
                if isinstance(st, ast.Assign) and len(st.targets) == 1 and isinstance(st.targets[0], ast.Tuple) and \
                        isinstance(st.value, ast.Tuple) and len(st.targets[0].elts) == len(st.value.elts):
                    ts, vs = st.targets[0].elts, st.value.elts
                    if any(isinstance(t, ast.Starred) for t in ts) or any(isinstance(v, ast.Starred) for v in vs):
                        continue
                    ok = True
                    for k, t in enumerate(ts[:-1]):
                        if isinstance(t, ast.Attribute) and isinstance(t.value, ast.Name) and \
                                all(isinstance(t2, (ast.Name, ast.Attribute)) and (isinstance(t2, ast.Name) or isinstance(t2.value, ast.Name)) for t2 in ts):
                            # self.a, self.b = x, y: the later values neither call anything nor read an attribute of that name, and no
                            # target rebinds the object stored to
                            for v in vs[k + 1:]:
                                if any(isinstance(n, (ast.Call, ast.Subscript, ast.Await, ast.Yield, ast.YieldFrom)) or
                                       (isinstance(n, ast.Attribute) and n.attr == t.attr) for n in ast.walk(v)):
                                    ok = False
                            if any(isinstance(t2, ast.Name) and t2.id == t.value.id for t2 in ts):
                                ok = False
                            continue
                        if not isinstance(t, ast.Name):
                            ok = False
                            break
                        for v in vs[k + 1:]:
                            if t.id in names_loaded(v):
                                ok = False
                        if any(isinstance(t2, ast.Attribute) and isinstance(t2.value, ast.Name) and t2.value.id == t.id for t2 in ts[k + 1:]):
                            ok = False
                    if not ok:
                        continue
                    lst[i:i + 1] = [at(ast.Assign(targets=[t], value=v), st) for t, v in zip(ts, vs)]
                    break

    # -- comprehension / lambda variables get names of their own ------------------------------------------------
    def pass_scopes(self):
        '''every comprehension / lambda binds variables of its own: they get names that occur nowhere else (<name>__c<k> /
        <name>__l<k>, k = position of the comprehension / lambda in the function)'''
        fn = self.fn
        k = 0
        for node in _source_order(fn):
            if isinstance(node, (ast.ListComp, ast.SetComp, ast.DictComp, ast.GeneratorExp)):
                k += 1
                bound = set()
                for g in node.generators:
                    bound |= names_stored(g.target)
                bound = {b for b in bound if '__c' not in b and '__l' not in b}
                if not bound:
                    continue
                first_iter = {id(x) for x in ast.walk(node.generators[0].iter)}
                mapping = {b: '%s__c%d' % (b, k) for b in bound}
                for x in ast.walk(node):
                    if isinstance(x, ast.Name) and x.id in mapping and id(x) not in first_iter:
                        x.id = mapping[x.id]
            elif isinstance(node, ast.Lambda):
                k += 1
                a = node.args
                params = [x for x in a.posonlyargs + a.args + a.kwonlyargs] + ([a.vararg] if a.vararg else []) + ([a.kwarg] if a.kwarg else [])
                params = [x for x in params if '__l' not in x.arg and '__c' not in x.arg and x.arg not in ('self', 'cls')]
                if not params:
                    continue
                # parameters that callers may pass by keyword keep their names
                if a.kwonlyargs or a.defaults:
                    continue
                mapping = {x.arg: '%s__l%d' % (x.arg, k) for x in params}
                for y in ast.walk(node.body):
                    if isinstance(y, ast.Name) and y.id in mapping:
                        y.id = mapping[y.id]
                for x in params:
                    x.arg = mapping[x.arg]

    # -- one name, several values: every definition that dominates its own uses gets a name of its own ----------
    def pass_webs(self):
        fn = self.fn
        for _ in range(60):
            self._web_done = {}
            if not self._split_one_web():
                break

    def _dominated_by_other_def(self, load, name, st):
        '''the load sits after another top-level definition `name = ..` (or inside a loop binding name) in some statement list'''
        for owner, fld, lst in walk_lists(self.fn):
            for k, s2 in enumerate(lst):
                if s2 is st:
                    continue
                if isinstance(s2, ast.Assign) and len(s2.targets) == 1 and isinstance(s2.targets[0], ast.Name) and s2.targets[0].id == name \
                        and name not in names_loaded(s2.value):
                    for later in lst[k + 1:]:
                        if any(x is load for x in ast.walk(later)):
                            return True
                if isinstance(s2, ast.For) and name in names_stored(s2.target) and not any(x is load for x in ast.walk(s2.iter)):
                    if any(x is load for b in s2.body for x in ast.walk(b)):
                        return True
        return False

    def _split_one_web(self):
        fn = self.fn
        a = fn.args
        params = {x.arg for x in a.posonlyargs + a.args + a.kwonlyargs}
        if a.vararg:
            params.add(a.vararg.arg)
        if a.kwarg:
            params.add(a.kwarg.arg)
        declared = set()
        for n in local_walk(fn):
            if isinstance(n, (ast.Global, ast.Nonlocal)):
                declared |= set(n.names)
        # names touched by nested functions / lambdas / comprehensions keep their webs
        captured = set()
        for n in ast.walk(fn):
            if n is not fn and isinstance(n, (ast.FunctionDef, ast.AsyncFunctionDef, ast.Lambda)):
                for x in ast.walk(n):
                    if isinstance(x, ast.Name):
                        captured.add(x.id)
        order = {}
        for k, n in enumerate(_source_order(fn)):
            order[id(n)] = k
        stores = {}
        for n in local_walk(fn):
            if isinstance(n, ast.Name) and isinstance(n.ctx, (ast.Store, ast.Del)):
                stores[n.id] = stores.get(n.id, 0) + 1
        for p_ in params:
            stores[p_] = stores.get(p_, 0) + 1
        loops_by_stmt = {}

        def index(lst, loop_stack):
            for s2 in lst:
                loops_by_stmt[id(s2)] = list(loop_stack)
                if isinstance(s2, (ast.FunctionDef, ast.AsyncFunctionDef, ast.ClassDef)):
                    continue
                for f2, l2 in stmt_lists(s2):
                    if f2 == 'handler':
                        continue
                    index(l2, loop_stack + [s2] if isinstance(s2, (ast.For, ast.While)) and f2 == 'body' else loop_stack)
                if isinstance(s2, ast.Try):
                    for h in s2.handlers:
                        index(h.body, loop_stack)
        index(fn.body, [])

        for owner, fld, lst in list(walk_lists(fn)):
            for i, st in enumerate(lst):
                region = None
                if isinstance(st, ast.Assign) and len(st.targets) == 1 and isinstance(st.targets[0], ast.Name):
                    name = st.targets[0].id
                    kind = 'assign'
                elif isinstance(st, ast.If) and not st.orelse and len(st.body) == 1 and isinstance(st.body[0], ast.Assign) and \
                        len(st.body[0].targets) == 1 and isinstance(st.body[0].targets[0], ast.Name) and i + 1 < len(lst):
                    name = st.body[0].targets[0].id
                    kind = 'cond'
                elif isinstance(st, ast.For):
                    cands = [x.id for x in ast.walk(st.target) if isinstance(x, ast.Name) and isinstance(x.ctx, ast.Store)]
                    cands = [c for c in cands if stores.get(c, 0) >= 2 and c not in declared and c not in captured and
                             c not in self._web_done.get(id(st), set())]
                    if not cands:
                        continue
                    name = cands[0]
                    self._web_done.setdefault(id(st), set()).add(name)
                    kind = 'for'
                else:
                    continue
                if stores.get(name, 0) < 2 or name in declared:
                    continue
                if name in captured and kind != 'assign':
                    continue
                loads = [n for n in local_walk(fn) if isinstance(n, ast.Name) and n.id == name and isinstance(n.ctx, ast.Load)]
                if kind in ('assign', 'cond'):
                    # region: statements after st up to (and including the value of) the next top-level re-definition
                    j = None
                    for k in range(i + 1, len(lst)):
                        s2 = lst[k]
                        if isinstance(s2, ast.Assign) and len(s2.targets) == 1 and isinstance(s2.targets[0], ast.Name) and s2.targets[0].id == name:
                            j = k
                            break
                    end = j if j is not None else len(lst)
                    region_nodes = set()
                    for s2 in lst[i + 1:end]:
                        for x in ast.walk(s2):
                            region_nodes.add(id(x))
                    if j is not None:
                        for x in ast.walk(lst[j].value):
                            region_nodes.add(id(x))
                    region_stmts = lst[i + 1:end]
                    own = {id(st.targets[0])} if kind == 'assign' else {id(st.body[0].targets[0])}
                    first_after = order[id(lst[end - 1])] if end - 1 > i else order[id(st)]
                    last_node = max([order[id(x)] for s2 in lst[i:end] for x in ast.walk(s2) if id(x) in order] +
                                    ([order[id(x)] for x in ast.walk(lst[j].value) if id(x) in order] if j is not None else []))
                else:
                    j = None
                    region_nodes = set()
                    for s2 in st.body + st.orelse:
                        for x in ast.walk(s2):
                            region_nodes.add(id(x))
                    region_stmts = st.body + st.orelse
                    own = {id(x) for x in ast.walk(st.target) if isinstance(x, ast.Name) and x.id == name}
                    last_node = max(order[id(x)] for x in ast.walk(st) if id(x) in order)
                    # a later top-level re-definition in the same list kills the loop variable
                    for k in range(i + 1, len(lst)):
                        s2 = lst[k]
                        if isinstance(s2, ast.Assign) and len(s2.targets) == 1 and isinstance(s2.targets[0], ast.Name) and \
                                s2.targets[0].id == name and name not in names_loaded(s2.value):
                            j = k
                            break
                    end = i + 1
                region_loads = [n for n in loads if id(n) in region_nodes]
                if kind in ('assign', 'cond') and not region_loads:
                    continue
                if name in captured:
                    # closures read the variable when they run: the first web may be split off only when every closure over the
                    # name is created behind the re-definition that ends the web, outside any loop
                    if j is None or loops_by_stmt.get(id(st)):
                        continue
                    inner = [x for n2 in ast.walk(fn) if n2 is not fn and isinstance(n2, (ast.FunctionDef, ast.AsyncFunctionDef, ast.Lambda))
                             for x in ast.walk(n2) if isinstance(x, ast.Name) and x.id == name]
                    if any(id(x) in region_nodes or order.get(id(x), -1) < order[id(lst[j])] for x in inner):
                        continue
                ok = True
                my_loops = loops_by_stmt.get(id(st), [])
                for n in loads:
                    if id(n) in region_nodes:
                        continue
                    o = order[id(n)]
                    if o < order[id(st)] or (kind == 'assign' and any(x is n for x in ast.walk(st.value))) or \
                            (kind == 'cond' and any(x is n for x in ast.walk(st))) or \
                            (kind == 'for' and any(x is n for x in ast.walk(st.iter))):
                        # before the definition: must not be reachable again through an enclosing loop
                        common = [lp for lp in my_loops if any(x is n for x in ast.walk(lp))]
                        if common:
                            inner = common[-1]
                            if not (isinstance(inner, ast.For) and name in names_stored(inner.target) and
                                    not any(x is n for x in ast.walk(inner.iter))):
                                ok = False
                                break
                        continue
                    # after the region: only behind a killing re-definition, and the region must not be left by break/continue
                    if self._dominated_by_other_def(n, name, st):
                        continue
                    if j is None or o < order[id(lst[j])]:
                        ok = False
                        break
                    if _has_free_loop_jump(region_stmts):
                        ok = False
                        break
                    if kind == 'assign' and any(isinstance(x, ast.Return) for s2 in region_stmts for x in local_walk(s2)) and False:
                        pass
                if not ok:
                    continue
                # the split must separate this web from other occurrences of the name
                all_occ = [x for x in local_walk(fn) if isinstance(x, ast.Name) and x.id == name]
                outside = [x for x in all_occ if id(x) not in region_nodes and id(x) not in own]
                if not outside and name not in params:
                    continue
                # stores inside the region join the web; a region inside a loop must not feed a later iteration:
                # reads before st inside my loops were rejected above
                self.counter += 1
                new = '%s__w%d' % (name.split('__w')[0], self.counter)
                if kind == 'cond':
                    # the value before the `if` must exist: a parameter or a definition earlier in this list
                    earlier = name in params or any(isinstance(s2, ast.Assign) and len(s2.targets) == 1 and isinstance(s2.targets[0], ast.Name)
                                                    and s2.targets[0].id == name for s2 in lst[:i])
                    if not earlier:
                        continue
                    st.orelse = [at(ast.Assign(targets=[ast.Name(id=new, ctx=ast.Store())], value=ast.Name(id=name, ctx=ast.Load())), st)]
                for x in local_walk(fn):
                    if isinstance(x, ast.Name) and x.id == name and (id(x) in region_nodes or id(x) in own):
                        x.id = new
                return True
        return False

    # -- small statement-level equivalences -------------------------------------------------------------------
    def _all_names(self, name):
        return [n for n in ast.walk(self.fn) if isinstance(n, ast.Name) and n.id == name]

    def _is_local(self, name):
        a = self.fn.args
        params = {x.arg for x in a.posonlyargs + a.args + a.kwonlyargs}
        if a.vararg:
            params.add(a.vararg.arg)
        if a.kwarg:
            params.add(a.kwarg.arg)
        if name in params:
            return False
        for n in local_walk(self.fn):
            if isinstance(n, (ast.Global, ast.Nonlocal)) and name in n.names:
                return False
        return True

    def _unrollable(self, loop):
        def plain(e):
            if isinstance(e, (ast.Name, ast.Constant)):
                return True
            if isinstance(e, (ast.Tuple, ast.List)):
                return all(plain(x) for x in e.elts)
            if isinstance(e, ast.Attribute):
                return plain(e.value)
            return False
        if not all(plain(e) for e in loop.iter.elts):
            return False
        t = loop.target
        if not (isinstance(t, ast.Name) or (isinstance(t, ast.Tuple) and all(isinstance(x, ast.Name) for x in t.elts))):
            return False
        if isinstance(t, ast.Tuple) and not all(isinstance(e, (ast.Tuple, ast.List)) and len(e.elts) == len(t.elts) for e in loop.iter.elts):
            return False
        read = {n.id for e in loop.iter.elts for n in ast.walk(e) if isinstance(n, ast.Name)}
        attrs = {n.attr for e in loop.iter.elts for n in ast.walk(e) if isinstance(n, ast.Attribute)}
        for x in loop.body:
            if names_stored(x) & read:
                return False
            for n in ast.walk(x):
                if isinstance(n, (ast.Yield, ast.YieldFrom)) and False:
                    return False
                if attrs and isinstance(n, ast.Attribute) and isinstance(n.ctx, (ast.Store, ast.Del)) and n.attr in attrs:
                    return False
                if attrs and isinstance(n, ast.Call) and not is_pure(n) and not self._never_rebound(attrs):
                    return False       # an attribute read by the sequence could be re-bound by a call in the body
        targets = names_stored(t)
        if targets & read:
            return False
        # the loop variables must not be read after the loop (they keep their last value either way, which is the same)
        return True

    def _never_rebound(self, attrs):
        '''none of the attribute names is ever the target of an attribute store / setattr in the analysed modules (methods)'''
        owner = getattr(self, 'owner', None)
        mods = getattr(owner, 'modules', None) or {}
        if not mods:
            return False
        cache = getattr(owner, '_stored_attrs', None)
        if cache is None:
            cache = set()
            dynamic = False
            for m in mods.values():
                for n in ast.walk(m.tree):
                    if isinstance(n, ast.Attribute) and isinstance(n.ctx, (ast.Store, ast.Del)):
                        cache.add(n.attr)
                    elif isinstance(n, ast.Call) and isinstance(n.func, ast.Name) and n.func.id in ('setattr', 'delattr'):
                        if len(n.args) >= 2 and isinstance(n.args[1], ast.Constant):
                            cache.add(n.args[1].value)
                        else:
                            dynamic = True
            owner._stored_attrs = cache
            owner._dynamic_setattr = dynamic
        methods = getattr(owner, '_method_names', None)
        if methods is None:
            methods = set()
            for m in mods.values():
                for n in ast.walk(m.tree):
                    if isinstance(n, ast.ClassDef):
                        methods |= {x.name for x in n.body if isinstance(x, ast.FunctionDef)}
            owner._method_names = methods
        # names of methods: a dynamic setattr(obj, computed_name, ..) in this code base installs data attributes, not methods
        return all(a in methods and a not in cache for a in attrs)

    _BUILTIN_EXC = {'KeyError': 'LookupError', 'IndexError': 'LookupError', 'LookupError': 'Exception', 'ValueError': 'Exception',
                    'TypeError': 'Exception', 'AttributeError': 'Exception', 'StopIteration': 'Exception', 'OSError': 'Exception',
                    'IOError': 'Exception', 'RuntimeError': 'Exception', 'NotImplementedError': 'RuntimeError', 'ZeroDivisionError': 'ArithmeticError',
                    'ArithmeticError': 'Exception', 'OverflowError': 'ArithmeticError', 'AssertionError': 'Exception', 'NameError': 'Exception',
                    'UnicodeError': 'ValueError', 'UnicodeDecodeError': 'UnicodeError', 'UnicodeEncodeError': 'UnicodeError',
                    'ImportError': 'Exception', 'Exception': 'BaseException', 'KeyboardInterrupt': 'BaseException', 'SystemExit': 'BaseException'}

    def _exception_ancestors(self, name):
        '''ancestor class names of an exception class named by a plain Name: classes of the analysed modules (single Name bases)
        and the usual builtins; None when the class is not known'''
        classes = {}
        owner = getattr(self, 'owner', None)
        mods = getattr(owner, 'program', None) or {}
        for m in mods.values():
            for n in ast.walk(m.tree):
                if isinstance(n, ast.ClassDef):
                    classes.setdefault(n.name, []).append(n)
        out, cur, hops = [], name, 0
        while hops < 12:
            hops += 1
            if cur in classes:
                if len(classes[cur]) != 1 or len(classes[cur][0].bases) != 1:
                    return None
                b = classes[cur][0].bases[0]
                b = b.id if isinstance(b, ast.Name) else (b.attr if isinstance(b, ast.Attribute) else None)
                if b is None:
                    return None
                out.append(b)
                cur = b
            elif cur in self._BUILTIN_EXC:
                out.append(self._BUILTIN_EXC[cur])
                cur = self._BUILTIN_EXC[cur]
            elif cur == 'BaseException':
                return out
            else:
                return None
        return None

    def _unrelated_exceptions(self, a, b):
        aa, ab = self._exception_ancestors(a), self._exception_ancestors(b)
        if aa is None or ab is None:
            return False
        return a not in ab and b not in aa

    def _immutable_local(self, name):
        '''every value ever bound to the local `name` is a str / number / tuple by construction (so `name += e` re-binds, never mutates)'''
        def immut(e, depth=0):
            if isinstance(e, ast.Constant) and isinstance(e.value, (str, int, float, bool, bytes)):
                return True
            if isinstance(e, ast.JoinedStr):
                return True
            if isinstance(e, ast.Tuple):
                return True
            if isinstance(e, ast.BinOp) and isinstance(e.op, ast.Mod) and isinstance(e.left, ast.Constant) and isinstance(e.left.value, str):
                return True
            if isinstance(e, ast.BinOp) and isinstance(e.op, (ast.Add, ast.Sub, ast.Mult)):
                return immut(e.left, depth + 1) or immut(e.right, depth + 1)       # str + x is a str or raises; int + x likewise
            if isinstance(e, ast.Call) and isinstance(e.func, ast.Name) and e.func.id in ('str', 'int', 'float', 'len', 'repr', 'bool', 'tuple', 'sum'):
                return True
            if isinstance(e, ast.Call) and isinstance(e.func, ast.Attribute) and isinstance(e.func.value, ast.Constant) and isinstance(e.func.value.value, str):
                return True        # ', '.join(..) / '..'.format(..)
            if isinstance(e, ast.Name) and e.id == name:
                return True
            return False
        seen = False
        for n in ast.walk(self.fn):
            if isinstance(n, ast.Assign):
                for t in n.targets:
                    if isinstance(t, ast.Name) and t.id == name:
                        seen = True
                        if not immut(n.value):
                            return False
                    elif any(isinstance(x, ast.Name) and x.id == name and isinstance(x.ctx, ast.Store) for x in ast.walk(t)):
                        return False
            elif isinstance(n, ast.AugAssign) and isinstance(n.target, ast.Name) and n.target.id == name:
                pass
            elif isinstance(n, (ast.For, ast.comprehension)) and any(isinstance(x, ast.Name) and x.id == name for x in ast.walk(n.target)):
                return False
            elif isinstance(n, (ast.With, ast.ExceptHandler, ast.NamedExpr, ast.Import, ast.ImportFrom)):
                if isinstance(n, ast.NamedExpr) and n.target.id == name:
                    return False
                if isinstance(n, ast.ExceptHandler) and n.name == name:
                    return False
                if isinstance(n, ast.With) and any(i_.optional_vars is not None and any(isinstance(x, ast.Name) and x.id == name for x in ast.walk(i_.optional_vars)) for i_ in n.items):
                    return False
        return seen

    def pass_simple(self):
        for owner, fld, lst in list(walk_lists(self.fn)):
            i = 0
            while i < len(lst):
                st = lst[i]
                nxt = lst[i + 1] if i + 1 < len(lst) else None
                # L = [a, ..]; L.extend(X) / L.append(x)   ->   L = [a, .., *X] / [a, .., x]      (a local list built step by step)
                if isinstance(st, ast.Assign) and len(st.targets) == 1 and isinstance(st.targets[0], ast.Name) and isinstance(st.value, ast.List) and \
                        isinstance(nxt, ast.Expr) and isinstance(nxt.value, ast.Call) and isinstance(nxt.value.func, ast.Attribute) and \
                        isinstance(nxt.value.func.value, ast.Name) and nxt.value.func.value.id == st.targets[0].id and \
                        nxt.value.func.attr in ('extend', 'append') and len(nxt.value.args) == 1 and not nxt.value.keywords and \
                        self._is_local(st.targets[0].id) and st.targets[0].id not in names_loaded(nxt.value.args[0]):
                    arg = nxt.value.args[0]
                    new_el = arg if nxt.value.func.attr == 'append' else ast.Starred(value=arg, ctx=ast.Load())
                    st.value = at(ast.List(elts=list(st.value.elts) + [new_el], ctx=ast.Load()), st.value)
                    del lst[i + 1]
                    continue
                # x = x
                if isinstance(st, ast.Assign) and len(st.targets) == 1 and isinstance(st.targets[0], ast.Name) and \
                        isinstance(st.value, ast.Name) and st.value.id == st.targets[0].id:
                    del lst[i]
                    if not lst:
                        lst.append(at(ast.Pass(), st))
                    continue
                # _, X = e  ->  X = e[1]
                if isinstance(st, ast.Assign) and len(st.targets) == 1 and isinstance(st.targets[0], ast.Tuple) and \
                        not isinstance(st.value, ast.Tuple):
                    elts = st.targets[0].elts
                    keep = [(k, t) for k, t in enumerate(elts) if not (isinstance(t, ast.Name) and t.id == '_')]
                    if len(keep) == 1 and len(elts) >= 2 and not any(isinstance(t, ast.Starred) for t in elts):
                        k, t = keep[0]
                        lst[i] = at(ast.Assign(targets=[t], value=ast.Subscript(value=st.value, slice=ast.Constant(value=k), ctx=ast.Load())), st)
                        continue
                # if c: x = a  else: x = b   ->   x = a if c else b     (same evaluation order; one spelling for both)
                if isinstance(st, ast.If) and len(st.body) == 1 and len(st.orelse) == 1 and \
                        all(isinstance(x, ast.Assign) and len(x.targets) == 1 and isinstance(x.targets[0], ast.Name) for x in (st.body[0], st.orelse[0])) and \
                        st.body[0].targets[0].id == st.orelse[0].targets[0].id and self._is_local(st.body[0].targets[0].id) and \
                        not any(isinstance(n, (ast.Yield, ast.YieldFrom, ast.Await, ast.NamedExpr)) for x in (st.body[0], st.orelse[0]) for n in ast.walk(x)):
                    nm = st.body[0].targets[0].id
                    lst[i] = at(ast.Assign(targets=[ast.Name(id=nm, ctx=ast.Store())],
                                           value=ast.IfExp(test=st.test, body=st.body[0].value, orelse=st.orelse[0].value)), st)
                    continue
                # D = {'a': x, ..}; D['k'] = v   ->   D = {'a': x, .., 'k': v}      (a fresh local dictionary that is filled right away)
                if isinstance(st, ast.Assign) and len(st.targets) == 1 and isinstance(st.targets[0], ast.Name) and isinstance(st.value, ast.Dict) and \
                        all(isinstance(k_, ast.Constant) for k_ in st.value.keys) and i + 1 < len(lst) and self._is_local(st.targets[0].id):
                    nxt = lst[i + 1]
                    dn = st.targets[0].id
                    if isinstance(nxt, ast.Assign) and len(nxt.targets) == 1 and isinstance(nxt.targets[0], ast.Subscript) and \
                            isinstance(nxt.targets[0].value, ast.Name) and nxt.targets[0].value.id == dn and isinstance(nxt.targets[0].slice, ast.Constant) and \
                            dn not in names_loaded(nxt.value) and not any(isinstance(n, (ast.Yield, ast.YieldFrom, ast.Await, ast.NamedExpr)) for n in ast.walk(nxt.value)):
                        key = nxt.targets[0].slice
                        hit = [k_ for k_, kn in enumerate(st.value.keys) if type(kn.value) is type(key.value) and kn.value == key.value]
                        if not hit:
                            st.value.keys.append(key)
                            st.value.values.append(nxt.value)
                            del lst[i + 1]
                            continue
                        if len(hit) == 1 and is_pure(st.value.values[hit[0]]) and not may_raise(st.value.values[hit[0]]) and \
                                all(is_pure(v_) for v_ in st.value.values[hit[0] + 1:]) and is_pure(nxt.value):
                            st.value.values[hit[0]] = nxt.value
                            del lst[i + 1]
                            continue
                # for v in X: S.add(v)   ->   S |= X      (S a local that was created as an OrderedSet: MutableSet.__ior__ is that loop)
                if isinstance(st, ast.For) and not st.orelse and isinstance(st.target, ast.Name) and len(st.body) == 1 and isinstance(st.body[0], ast.Expr) and \
                        isinstance(st.body[0].value, ast.Call):
                    c_ = st.body[0].value
                    if isinstance(c_.func, ast.Attribute) and c_.func.attr == 'add' and isinstance(c_.func.value, ast.Name) and len(c_.args) == 1 and \
                            not c_.keywords and isinstance(c_.args[0], ast.Name) and c_.args[0].id == st.target.id and \
                            len(self._all_names(st.target.id)) == 2 and self._is_local(st.target.id):
                        sn = c_.func.value.id
                        plain = [a_ for a_ in ast.walk(self.fn) if isinstance(a_, ast.Assign) and any(isinstance(t_, ast.Name) and t_.id == sn for t_ in a_.targets)]
                        other = [n for n in ast.walk(self.fn) if isinstance(n, ast.Name) and n.id == sn and isinstance(n.ctx, (ast.Store, ast.Del))]
                        augs = [a_ for a_ in ast.walk(self.fn) if isinstance(a_, ast.AugAssign) and isinstance(a_.target, ast.Name) and a_.target.id == sn]
                        if self._is_local(sn) and len(plain) == 1 and len(plain[0].targets) == 1 and len(other) == 1 + len(augs) and \
                                all(isinstance(a_.op, ast.BitOr) for a_ in augs) and isinstance(plain[0].value, ast.Call) and not plain[0].value.args and \
                                not plain[0].value.keywords and _kwdotted(plain[0].value.func) in ('xtuml.OrderedSet', 'OrderedSet', 'xtuml.tools.OrderedSet') and \
                                sn not in names_loaded(st.iter):
                            lst[i] = at(ast.AugAssign(target=ast.Name(id=sn, ctx=ast.Store()), op=ast.BitOr(), value=st.iter), st)
                            continue
                # if <constant>: A else: B  ->  A or B;   statements after a jump in the same list are unreachable
                if isinstance(st, ast.If) and isinstance(st.test, ast.Constant) and isinstance(st.test.value, (bool, int, type(None))) and \
                        not any(isinstance(n, (ast.Global, ast.Nonlocal)) for n in ast.walk(st)):
                    taken = st.body if st.test.value else st.orelse
                    lst[i:i + 1] = list(taken) or [at(ast.Pass(), st)]
                    if len(lst) > 1 and any(isinstance(x, ast.Pass) for x in lst):
                        lst[:] = [x for x in lst if not isinstance(x, ast.Pass)] or [at(ast.Pass(), st)]
                    continue
                if isinstance(st, (ast.Return, ast.Raise, ast.Continue, ast.Break)) and i + 1 < len(lst) and \
                        not any(isinstance(n, (ast.FunctionDef, ast.ClassDef, ast.Global, ast.Nonlocal, ast.Yield, ast.YieldFrom)) for x in lst[i + 1:] for n in ast.walk(x)):
                    del lst[i + 1:]
                    continue
                # if c: a, b = E  else: a = x; b = y   ->   a, b = E if c else (x, y)      (locals; x, y do not read a / b)
                if isinstance(st, ast.If) and st.body and st.orelse:
                    done = False
                    for tup_side, seq_side, flip in ((st.body, st.orelse, False), (st.orelse, st.body, True)):
                        if len(tup_side) == 1 and isinstance(tup_side[0], ast.Assign) and len(tup_side[0].targets) == 1 and \
                                isinstance(tup_side[0].targets[0], ast.Tuple) and \
                                all(isinstance(t, ast.Name) and self._is_local(t.id) for t in tup_side[0].targets[0].elts) and \
                                len(seq_side) == len(tup_side[0].targets[0].elts) >= 2 and \
                                all(isinstance(x, ast.Assign) and len(x.targets) == 1 and isinstance(x.targets[0], ast.Name) for x in seq_side):
                            tn = [t.id for t in tup_side[0].targets[0].elts]
                            if len(set(tn)) != len(tn) or [x.targets[0].id for x in seq_side] != tn:
                                continue
                            if any(names_loaded(x.value) & set(tn) for x in seq_side) or \
                                    any(isinstance(n, (ast.Yield, ast.YieldFrom, ast.Await, ast.NamedExpr)) for x in list(seq_side) + list(tup_side) for n in ast.walk(x)):
                                continue
                            tupv = at(ast.Tuple(elts=[x.value for x in seq_side], ctx=ast.Load()), seq_side[0])
                            a_, b_ = (tupv, tup_side[0].value) if flip else (tup_side[0].value, tupv)
                            lst[i] = at(ast.Assign(targets=[tup_side[0].targets[0]], value=ast.IfExp(test=st.test, body=a_, orelse=b_)), st)
                            done = True
                            break
                    if done:
                        continue
                # if N is None: S(None)  else: S(N)   ->   S(N)      (the guarded branch is the general one with the tested value filled in)
                if isinstance(st, ast.If) and isinstance(st.test, ast.Compare) and len(st.test.ops) == 1 and isinstance(st.test.ops[0], ast.Is) and \
                        isinstance(st.test.left, ast.Name) and isinstance(st.test.comparators[0], ast.Constant) and st.test.comparators[0].value is None:
                    nm_ = st.test.left.id
                    special, general, consumed = st.body, None, 1
                    if st.orelse:
                        general = st.orelse
                    elif special and isinstance(special[-1], ast.Return) and special[-1].value is None and owner is self.fn and fld == 'body':
                        general, consumed = lst[i + 1:], len(lst) - i
                        special = special[:-1]
                    if general and special and nm_ not in set().union(*[names_stored(x) for x in general]):
                        filled = [_Subst({nm_: ast.Constant(value=None)}).visit(clone(x)) for x in general]
                        if dump(filled) == dump(special) and dump(filled) != dump(general):
                            lst[i:i + consumed] = general
                            continue
                # if any(c for v in X): B  [else: E]   ->   for v in X: if c: B; break   [else: E]      (any() stops at the first true element)
                if isinstance(st, ast.If) and isinstance(st.test, ast.Call) and isinstance(st.test.func, ast.Name) and st.test.func.id == 'any' and \
                        len(st.test.args) == 1 and not st.test.keywords and isinstance(st.test.args[0], (ast.GeneratorExp, ast.ListComp)) and \
                        isinstance(st.test.args[0], ast.GeneratorExp) and len(st.test.args[0].generators) == 1 and \
                        not st.test.args[0].generators[0].is_async and not _has_free_loop_jump(st.body):
                    g = st.test.args[0].generators[0]
                    bound = names_stored(g.target)
                    if not any(isinstance(n, ast.Name) and n.id in bound for x in st.body + st.orelse for n in ast.walk(x)):
                        conds = list(g.ifs) + [st.test.args[0].elt]
                        inner = at(ast.If(test=mk_bool(ast.And(), conds, st), body=list(st.body) + [at(ast.Break(), st)], orelse=[]), st)
                        lst[i] = at(ast.For(target=g.target, iter=g.iter, body=[inner], orelse=list(st.orelse)), st)
                        continue
                # for T in (E for v in X if c): BODY   ->   for v in X: if c: T = E; BODY      (a generator expression is consumed lazily,
                # element by element, so the interleaving is the same)
                if isinstance(st, ast.For) and isinstance(st.iter, ast.GeneratorExp) and len(st.iter.generators) == 1 and not st.orelse and \
                        not st.iter.generators[0].is_async and not (names_stored(st.iter.generators[0].target) & names_stored(st.target)):
                    g = st.iter.generators[0]
                    inner = [at(ast.Assign(targets=[st.target], value=st.iter.elt), st)] + st.body
                    if isinstance(st.target, ast.Name) and isinstance(st.iter.elt, ast.Name) and isinstance(g.target, ast.Name) and \
                            st.iter.elt.id == g.target.id:
                        # (v for v in X if c): the loop variable itself
                        inner = [_Rename({g.target.id: st.target.id}).visit(x) for x in st.body]
                        g_target = ast.Name(id=st.target.id, ctx=ast.Store())
                        conds = [_Rename({g.target.id: st.target.id}).visit(c) for c in g.ifs]
                    else:
                        g_target, conds = g.target, list(g.ifs)
                    if conds:
                        inner = [at(ast.If(test=mk_bool(ast.And(), conds, st), body=inner, orelse=[]), st)]
                    lst[i] = at(ast.For(target=g_target, iter=g.iter, body=inner, orelse=[]), st)
                    continue
                # for v in (a, b, c): BODY   ->   v = a; BODY; v = b; BODY; v = c; BODY     (a literal sequence of plain names / constants)
                if isinstance(st, ast.For) and isinstance(st.iter, (ast.Tuple, ast.List)) and not st.orelse and 1 <= len(st.iter.elts) <= 6 and \
                        not _has_free_loop_jump(st.body) and self._unrollable(st):
                    new_ = []
                    for el in st.iter.elts:
                        new_.append(at(ast.Assign(targets=[clone(st.target)], value=clone(el)), st))
                        new_.extend(clone(x) for x in st.body)
                    lst[i:i + 1] = new_
                    continue
                # x = D; if c1: x = A elif c2: x = B   ->   if c1: x = A elif c2: x = B else: x = D      (D a constant; x not read in the chain)
                if isinstance(st, ast.Assign) and len(st.targets) == 1 and isinstance(st.targets[0], ast.Name) and isinstance(st.value, ast.Constant) and \
                        isinstance(nxt, ast.If) and self._is_local(st.targets[0].id):
                    nm_ = st.targets[0].id
                    chain, cur_, ok_ = [], nxt, True
                    while True:
                        chain.append(cur_)
                        if len(cur_.orelse) == 1 and isinstance(cur_.orelse[0], ast.If):
                            cur_ = cur_.orelse[0]
                        else:
                            break
                    if chain[-1].orelse:
                        ok_ = False
                    for c_ in chain:
                        if any(isinstance(n, ast.Name) and n.id == nm_ for n in ast.walk(c_.test)):
                            ok_ = False
                        if not (len(c_.body) == 1 and isinstance(c_.body[0], ast.Assign) and len(c_.body[0].targets) == 1 and
                                isinstance(c_.body[0].targets[0], ast.Name) and c_.body[0].targets[0].id == nm_ and
                                not any(isinstance(n, ast.Name) and n.id == nm_ for n in ast.walk(c_.body[0].value))):
                            ok_ = False
                    if ok_:
                        chain[-1].orelse = [st]
                        del lst[i]
                        continue
                # return None  ->  return
                if isinstance(st, ast.Return) and isinstance(st.value, ast.Constant) and st.value.value is None:
                    st.value = None
                # if A: T = A  else: T = B   ->   T = A or B      (any target; A a plain name)
                if isinstance(st, ast.If) and len(st.body) == 1 and len(st.orelse) == 1 and isinstance(st.test, ast.Name) and \
                        all(isinstance(x, ast.Assign) and len(x.targets) == 1 for x in (st.body[0], st.orelse[0])) and \
                        dump(st.body[0].targets[0]) == dump(st.orelse[0].targets[0]) and is_pure(st.body[0].targets[0]) and \
                        isinstance(st.body[0].value, ast.Name) and st.body[0].value.id == st.test.id and \
                        st.test.id not in names_stored(st.body[0].targets[0]):
                    lst[i] = at(ast.Assign(targets=[st.body[0].targets[0]],
                                           value=ast.BoolOp(op=ast.Or(), values=[st.body[0].value, st.orelse[0].value])), st)
                    continue
                # T[k] = a if c else b   ->   if c: T[k] = a  else: T[k] = b     (the value is evaluated before the target either way)
                if isinstance(st, ast.Assign) and len(st.targets) == 1 and isinstance(st.targets[0], (ast.Subscript, ast.Attribute)) and \
                        isinstance(st.value, ast.IfExp) and is_pure(st.targets[0]):
                    lst[i] = at(ast.If(test=st.value.test,
                                       body=[ast.Assign(targets=[clone(st.targets[0])], value=st.value.body)],
                                       orelse=[ast.Assign(targets=[clone(st.targets[0])], value=st.value.orelse)]), st)
                    continue
                # return a if c else b   ->   if c: return a  else: return b
                if isinstance(st, ast.Return) and isinstance(st.value, ast.IfExp):
                    lst[i] = at(ast.If(test=st.value.test, body=[ast.Return(value=st.value.body)], orelse=[ast.Return(value=st.value.orelse)]), st)
                    continue
                # s += e  ->  s = s + e   for a local that holds an immutable value (str / number / tuple): no aliasing is possible
                if isinstance(st, ast.AugAssign) and isinstance(st.target, ast.Name) and isinstance(st.op, (ast.Add, ast.Sub, ast.Mult)) \
                        and self._is_local(st.target.id) and self._immutable_local(st.target.id):
                    lst[i] = at(ast.Assign(targets=[ast.Name(id=st.target.id, ctx=ast.Store())],
                                           value=ast.BinOp(left=ast.Name(id=st.target.id, ctx=ast.Load()), op=st.op, right=st.value)), st)
                    continue
                # x |= <bool>  ->  x = x | <bool>
                if isinstance(st, ast.AugAssign) and isinstance(st.target, ast.Name) and isinstance(st.op, (ast.BitOr, ast.BitAnd)) \
                        and _looks_boolean(st.value) and self._is_local(st.target.id):
                    op = ast.Or() if isinstance(st.op, ast.BitOr) else ast.And()
                    lst[i] = at(ast.Assign(targets=[ast.Name(id=st.target.id, ctx=ast.Store())],
                                           value=ast.BoolOp(op=op, values=[ast.Name(id=st.target.id, ctx=ast.Load()), st.value])), st)
                    continue
                # if N: N = e  ->  N = N and e      if not N: N = e  ->  N = N or e
                if isinstance(st, ast.If) and not st.orelse and len(st.body) == 1 and isinstance(st.body[0], ast.Assign) and \
                        len(st.body[0].targets) == 1 and isinstance(st.body[0].targets[0], ast.Name):
                    n = st.body[0].targets[0].id
                    t = st.test
                    op = None
                    if isinstance(t, ast.Name) and t.id == n:
                        op = ast.And()
                    elif isinstance(t, ast.UnaryOp) and isinstance(t.op, ast.Not) and isinstance(t.operand, ast.Name) and t.operand.id == n:
                        op = ast.Or()
                    if op is not None and self._is_local(n) and _looks_boolean(st.body[0].value):
                        lst[i] = at(ast.Assign(targets=[ast.Name(id=n, ctx=ast.Store())],
                                               value=ast.BoolOp(op=op, values=[ast.Name(id=n, ctx=ast.Load()), st.body[0].value])), st)
                        continue
                # if K in D: x = D[K] else: x = V   ->   x = D.get(K, V)
                if isinstance(st, ast.If) and len(st.body) == 1 and len(st.orelse) == 1 and isinstance(st.test, ast.Compare) and \
                        len(st.test.ops) == 1 and isinstance(st.test.ops[0], ast.In) and \
                        all(isinstance(x, ast.Assign) and len(x.targets) == 1 and isinstance(x.targets[0], ast.Name) for x in (st.body[0], st.orelse[0])) and \
                        st.body[0].targets[0].id == st.orelse[0].targets[0].id:
                    K, D = st.test.left, st.test.comparators[0]
                    v = st.body[0].value
                    if isinstance(v, ast.Subscript) and dump(v.value) == dump(D) and dump(v.slice) == dump(K) and is_pure(K) and isinstance(st.orelse[0].value, (ast.Name, ast.Constant)):
                        call = ast.Call(func=ast.Attribute(value=D, attr='get', ctx=ast.Load()), args=[K, st.orelse[0].value], keywords=[])
                        lst[i] = at(ast.Assign(targets=[st.body[0].targets[0]], value=call), st)
                        continue
                # except (A, B): X  ->  except A: X  except B: X
                if isinstance(st, ast.Try):
                    hs = []
                    changed = False
                    for h in st.handlers:
                        if isinstance(h.type, ast.Tuple) and h.type.elts:
                            for k, t in enumerate(h.type.elts):
                                hs.append(at(ast.ExceptHandler(type=t, name=h.name, body=h.body if k == 0 else clone(h.body)), h))
                            changed = True
                        else:
                            hs.append(h)
                    if changed:
                        st.handlers = hs
                    # handlers for unrelated exception classes are tried in one order (by name)
                    hs = st.handlers
                    if len(hs) > 1 and all(isinstance(h.type, ast.Name) for h in hs) and len({h.type.id for h in hs}) == len(hs):
                        names_ = [h.type.id for h in hs]
                        if all(self._unrelated_exceptions(a_, b_) for k_, a_ in enumerate(names_) for b_ in names_[k_ + 1:]):
                            st.handlers = sorted(hs, key=lambda h: h.type.id)
                # del <local>  /  a local that is stored once and never read
                if isinstance(st, ast.Delete) and len(st.targets) == 1 and isinstance(st.targets[0], ast.Name) and self._is_local(st.targets[0].id):
                    n = st.targets[0].id
                    later = [x for s2 in lst[i + 1:] for x in ast.walk(s2) if isinstance(x, ast.Name) and x.id == n]
                    if not later and not self._in_loop(st):
                        del lst[i]
                        if not lst:
                            lst.append(at(ast.Pass(), st))
                        continue
                if isinstance(st, ast.Assign) and len(st.targets) == 1 and isinstance(st.targets[0], ast.Name) and self._is_local(st.targets[0].id):
                    n = st.targets[0].id
                    occ = self._all_names(n)
                    if len(occ) == 1 or self._only_plainly_stored(n, occ):
                        if is_pure(st.value) and (not may_raise(st.value) or self._ply_item(st.value)):
                            del lst[i]
                            if not lst:
                                lst.append(at(ast.Pass(), st))
                        else:
                            lst[i] = at(ast.Expr(value=st.value), st)
                        continue
                # for t in it: a, b = t; ...   ->  for (a, b) in it: ...
                if isinstance(st, ast.For) and st.body and isinstance(st.body[0], ast.Assign) and len(st.body[0].targets) == 1 and \
                        isinstance(st.body[0].targets[0], (ast.Tuple, ast.List)) and isinstance(st.body[0].value, ast.Name):
                    t = st.body[0].value.id
                    occ = self._all_names(t)
                    tgt_names = [x for x in ast.walk(st.target) if isinstance(x, ast.Name) and x.id == t]
                    pat = st.body[0].targets[0]
                    if len(occ) == 2 and len(tgt_names) == 1 and all(isinstance(e, ast.Name) for e in pat.elts):
                        new_pat = ast.Tuple(elts=pat.elts, ctx=ast.Store())
                        if st.target is tgt_names[0]:
                            st.target = at(new_pat, st.target)
                        else:
                            class R(ast.NodeTransformer):
                                def visit_Name(s2, node):
                                    return at(new_pat, node) if node is tgt_names[0] else node
                            st.target = R().visit(st.target)
                        del st.body[0]
                        if not st.body:
                            st.body.append(at(ast.Pass(), st))
                        continue
                # for x in IT: yield x   ->   yield from IT
                if isinstance(st, ast.For) and not st.orelse and len(st.body) == 1 and isinstance(st.body[0], ast.Expr) and \
                        isinstance(st.body[0].value, ast.Yield) and isinstance(st.target, ast.Name) and \
                        isinstance(st.body[0].value.value, ast.Name) and st.body[0].value.value.id == st.target.id and \
                        len([x for x in self._all_names(st.target.id)]) == 2:
                    lst[i] = at(ast.Expr(value=ast.YieldFrom(value=st.iter)), st)
                    continue
                # for T in (E for x in IT): BODY   ->   for x in IT: T = E; BODY
                if isinstance(st, ast.For) and isinstance(st.iter, (ast.GeneratorExp, ast.ListComp)) and len(st.iter.generators) == 1 and \
                        not st.iter.generators[0].ifs and not st.orelse and isinstance(st.iter.generators[0].target, (ast.Name, ast.Tuple)):
                    g = st.iter.generators[0]
                    gvars = names_stored(g.target)
                    body_names = set()
                    for b_ in st.body:
                        body_names |= {n.id for n in ast.walk(b_) if isinstance(n, ast.Name)}
                    others = {n.id for n in ast.walk(self.fn) if isinstance(n, ast.Name)} - gvars
                    used_elsewhere = any(isinstance(n, ast.Name) and n.id in gvars for n in ast.walk(self.fn)
                                         if not any(n is x for x in ast.walk(st.iter)))
                    if not (gvars & body_names) and not used_elsewhere and is_pure(st.iter.elt):
                        bind = at(ast.Assign(targets=[st.target], value=st.iter.elt), st)
                        for x in ast.walk(bind.targets[0]):
                            if hasattr(x, 'ctx'):
                                x.ctx = ast.Store()
                        tgt = clone(g.target)
                        st.target = tgt
                        st.iter = g.iter
                        st.body.insert(0, bind)
                        continue
                # x = Ctor(); A.b = x   ->   A.b = Ctor()   (x then stands for A.b)
                if isinstance(st, ast.Assign) and len(st.targets) == 1 and isinstance(st.targets[0], ast.Name) and nxt is not None and \
                        isinstance(nxt, ast.Assign) and len(nxt.targets) == 1 and isinstance(nxt.targets[0], ast.Attribute) and \
                        isinstance(nxt.value, ast.Name) and nxt.value.id == st.targets[0].id and self._is_local(st.targets[0].id) and \
                        isinstance(st.value, ast.Call) and not is_pure(st.value):
                    n = st.targets[0].id
                    tgt = nxt.targets[0]
                    stores = [x for x in self._all_names(n) if isinstance(x.ctx, (ast.Store, ast.Del))]
                    chain_ok = True
                    base = tgt
                    while isinstance(base, ast.Attribute):
                        base = base.value
                    if not isinstance(base, ast.Name):
                        chain_ok = False
                    rest = lst[i + 2:]
                    uses_outside = [x for x in self._all_names(n) if isinstance(x.ctx, ast.Load)]
                    uses_rest = [x for s2 in rest for x in ast.walk(s2) if isinstance(x, ast.Name) and x.id == n and isinstance(x.ctx, ast.Load)]
                    tdump = dump(tgt).replace('Store()', 'Load()')
                    restored = any(isinstance(x, ast.Attribute) and isinstance(x.ctx, (ast.Store, ast.Del)) and dump(x).replace('Store()', 'Load()') == tdump
                                   for s2 in rest for x in ast.walk(s2))
                    rebound = chain_ok and any(isinstance(x, ast.Name) and x.id == base.id and isinstance(x.ctx, (ast.Store, ast.Del)) for s2 in rest for x in ast.walk(s2))
                    deferred = any(_inside_deferred(self.fn, x, comps=False) for x in uses_rest)
                    if chain_ok and len(stores) == 1 and len(uses_outside) == len(uses_rest) + 1 and not restored and not rebound and not deferred:
                        load_t = clone(tgt)
                        for x in ast.walk(load_t):
                            if hasattr(x, 'ctx'):
                                x.ctx = ast.Load()
                        sub = _Subst({n: load_t})
                        for k in range(i + 2, len(lst)):
                            lst[k] = sub.visit(lst[k])
                        lst[i:i + 2] = [at(ast.Assign(targets=[tgt], value=st.value), st)]
                        continue
                # x = K; if c: BODY (BODY assigns x)   ->   if c: BODY else: x = K
                if isinstance(st, ast.Assign) and len(st.targets) == 1 and isinstance(st.targets[0], ast.Name) and isinstance(nxt, ast.If) \
                        and not nxt.orelse and isinstance(st.value, ast.Constant) and self._is_local(st.targets[0].id):
                    n = st.targets[0].id
                    if n not in names_loaded(nxt.test) and nxt.body and isinstance(nxt.body[0], ast.Assign) and \
                            len(nxt.body[0].targets) == 1 and isinstance(nxt.body[0].targets[0], ast.Name) and nxt.body[0].targets[0].id == n \
                            and n not in names_loaded(nxt.body[0].value):
                        nxt.orelse = [st]
                        del lst[i]
                        continue
                i += 1

    def _in_loop(self, st):
        for owner, fld, lst in walk_lists(self.fn):
            if isinstance(owner, (ast.For, ast.While)) and fld == 'body':
                if any(x is st for s2 in lst for x in ast.walk(s2)):
                    return True
        return False

    # -- xs = []; for ...: xs.append(e)  ->  comprehension ---------------------------------------------------
    def pass_collections(self):
        for owner, fld, lst in list(walk_lists(self.fn)):
            for i in range(len(lst) - 1):
                st, nxt = lst[i], lst[i + 1]
                if not (isinstance(st, ast.Assign) and len(st.targets) == 1 and isinstance(st.targets[0], ast.Name)):
                    continue
                name = st.targets[0].id
                if not isinstance(nxt, ast.For) or nxt.orelse:
                    continue
                gens, elt = _comprehension_of(nxt, name)
                if gens is None:
                    continue
                if isinstance(st.value, ast.List) and not st.value.elts and elt[0] == 'list':
                    new = ast.ListComp(elt=elt[1], generators=gens)
                elif isinstance(st.value, ast.Dict) and not st.value.keys and elt[0] == 'dict':
                    new = ast.DictComp(key=elt[1], value=elt[2], generators=gens)
                else:
                    continue
                # loop variables must not be used afterwards
                loopvars = set()
                for g in gens:
                    loopvars |= names_stored(g.target)
                rest = lst[i + 2:]
                if any(v in names_loaded(s) for s in rest for v in loopvars):
                    continue
                if name in {n.id for g in gens for n in ast.walk(g.iter) if isinstance(n, ast.Name)} or \
                        name in names_loaded(elt[1]) or (len(elt) > 2 and name in names_loaded(elt[2])):
                    continue
                lst[i:i + 2] = [at(ast.Assign(targets=[st.targets[0]], value=at(new, nxt)), st)]
                return

    # -- flag + break  ->  for/else --------------------------------------------------------------------------
    def pass_flags(self):
        # for ..: (x = K; break)*  else: x = not K     ->     x = not K; for ..: (x = K; break)*      (flag form; handled below)
        for owner, fld, lst in list(walk_lists(self.fn)):
            for i, loop in enumerate(lst):
                if not (isinstance(loop, (ast.For, ast.While)) and len(loop.orelse) == 1):
                    continue
                e = loop.orelse[0]
                if not (isinstance(e, ast.Assign) and len(e.targets) == 1 and isinstance(e.targets[0], ast.Name) and
                        isinstance(e.value, ast.Constant) and isinstance(e.value.value, bool) and self._is_local(e.targets[0].id)):
                    continue
                name, final = e.targets[0].id, e.value.value
                brks = _breaks_of(loop)
                if not brks:
                    continue
                good = 0
                for o2, f2, l2 in walk_lists(loop):
                    if o2 is loop and f2 == 'orelse':
                        continue
                    for k, s2 in enumerate(l2):
                        if isinstance(s2, ast.Break) and any(s2 is b for b in brks):
                            prev = l2[k - 1] if k > 0 else None
                            if isinstance(prev, ast.Assign) and len(prev.targets) == 1 and isinstance(prev.targets[0], ast.Name) and \
                                    prev.targets[0].id == name and isinstance(prev.value, ast.Constant) and prev.value.value is (not final):
                                good += 1
                if good != len(brks):
                    continue
                # the name must not be read or written elsewhere inside the loop, nor live before it
                inner = [n for n in ast.walk(loop) if isinstance(n, ast.Name) and n.id == name]
                if len(inner) != len(brks) + 1:
                    continue
                before = [n for s2 in lst[:i] for n in ast.walk(s2) if isinstance(n, ast.Name) and n.id == name]
                if before or self._in_loop(loop) and any(isinstance(n, ast.Name) and n.id == name and isinstance(n.ctx, ast.Load)
                                                         for s2 in lst[:i] for n in ast.walk(s2)):
                    continue
                loop.orelse = []
                lst.insert(i, at(ast.Assign(targets=[ast.Name(id=name, ctx=ast.Store())], value=ast.Constant(value=final)), loop))
                return
        for owner, fld, lst in list(walk_lists(self.fn)):
            if owner is self.fn:
                lkind = 'function'
            elif isinstance(owner, (ast.For, ast.While)) and fld == 'body':
                lkind = 'loop'
            else:
                lkind = None
            for i in range(len(lst) - 2):
                a, loop, test = lst[i], lst[i + 1], lst[i + 2]
                if not (isinstance(a, ast.Assign) and len(a.targets) == 1 and isinstance(a.targets[0], ast.Name) and
                        isinstance(a.value, ast.Constant) and isinstance(a.value.value, bool)):
                    continue
                if not isinstance(loop, (ast.For, ast.While)) or loop.orelse or not isinstance(test, ast.If):
                    continue
                name, init = a.targets[0].id, a.value.value
                t = test.test
                if isinstance(t, ast.Name) and t.id == name:
                    positive = True
                elif isinstance(t, ast.UnaryOp) and isinstance(t.op, ast.Not) and isinstance(t.operand, ast.Name) and t.operand.id == name:
                    positive = False
                else:
                    continue
                occ = [n for n in ast.walk(self.fn) if isinstance(n, ast.Name) and n.id == name]
                sets = []
                ok = True
                for o2, f2, l2 in walk_lists(loop):
                    for k, s2 in enumerate(l2):
                        if isinstance(s2, ast.Assign) and len(s2.targets) == 1 and isinstance(s2.targets[0], ast.Name) and s2.targets[0].id == name:
                            if isinstance(s2.value, ast.Constant) and s2.value.value is (not init) and k + 1 < len(l2) and \
                                    isinstance(l2[k + 1], ast.Break) and _break_belongs_to(loop, l2[k + 1]):
                                sets.append((l2, s2))
                            else:
                                ok = False
                if not ok or not sets or len(occ) != 2 + len(sets):
                    continue
                if len(_breaks_of(loop)) != len(sets):
                    continue
                # which branch of the test runs when the loop completed without break?
                if positive == init:
                    completed, broke = test.body, test.orelse
                else:
                    completed, broke = test.orelse, test.body
                rest = lst[i + 3:]
                tail_jump = len(broke) == 1 and not completed and (
                    (lkind == 'loop' and isinstance(broke[0], ast.Continue)) or
                    (lkind == 'function' and isinstance(broke[0], ast.Return) and broke[0].value is None))
                if tail_jump:
                    # if broke: continue; REST   ==   (completed) REST
                    completed, broke, consumed = rest or [at(ast.Pass(), test)], [], len(lst)
                else:
                    consumed = i + 3
                    if _has_free_loop_jump(broke):
                        continue
                for l2, s2 in sets:
                    k = [q for q, x in enumerate(l2) if x is s2][0]
                    l2[k:k + 1] = [clone(x) for x in broke]
                loop.orelse = list(completed)
                lst[i:consumed] = [loop]
                return

    # -- if c: x = a else: x = b; S(x)   ->   if c: S(a) else: S(b) -----------------------------------------
    def pass_sink(self):
        for owner, fld, lst in list(walk_lists(self.fn)):
            for i in range(len(lst) - 1):
                st, nxt = lst[i], lst[i + 1]
                if not isinstance(st, ast.If) or not st.orelse:
                    continue
                if not isinstance(nxt, (ast.Expr, ast.Assign, ast.AugAssign, ast.Return)):
                    continue
                leaves = []

                def collect(node):
                    leaves.append(node.body)
                    if len(node.orelse) == 1 and isinstance(node.orelse[0], ast.If):
                        collect(node.orelse[0])
                    else:
                        leaves.append(node.orelse)
                collect(st)
                if not all(l and isinstance(l[-1], ast.Assign) and len(l[-1].targets) == 1 and isinstance(l[-1].targets[0], ast.Name) for l in leaves):
                    continue
                names = {l[-1].targets[0].id for l in leaves}
                if len(names) != 1:
                    continue
                x = names.pop()
                if not self._is_local(x):
                    continue
                if all(len(l) == 1 for l in leaves):
                    continue        # becomes one conditional-expression assignment (pass_simple)
                occ = self._all_names(x)
                loads = [n for n in occ if isinstance(n.ctx, ast.Load)]
                stores = [n for n in occ if isinstance(n.ctx, (ast.Store, ast.Del))]
                in_next = [n for n in ast.walk(nxt) if isinstance(n, ast.Name) and n.id == x and isinstance(n.ctx, ast.Load)]
                if len(loads) != 1 or len(in_next) != 1 or len(stores) != len(leaves):
                    continue
                if _inside_deferred(nxt, in_next[0], comps=True):
                    continue
                if isinstance(nxt, ast.Assign) and any(isinstance(n, ast.Name) and n.id == x for t in nxt.targets for n in ast.walk(t)):
                    continue
                for l in leaves:
                    v = l[-1].value
                    l[-1] = at(_Subst({x: v}).visit(clone(nxt)), l[-1])
                del lst[i + 1]
                return

    # -- temporaries -----------------------------------------------------------------------------------------
    def pass_temps(self):
        fn = self.fn
        params = {x.arg for x in fn.args.posonlyargs + fn.args.args + fn.args.kwonlyargs}
        if fn.args.vararg:
            params.add(fn.args.vararg.arg)
        if fn.args.kwarg:
            params.add(fn.args.kwarg.arg)
        declared = set()
        for n in local_walk(fn):
            if isinstance(n, (ast.Global, ast.Nonlocal)):
                declared |= set(n.names)
        # count stores per name (anywhere in the function incl. nested lambdas/comprehension targets)
        stores = {}
        for n in ast.walk(fn):
            if isinstance(n, ast.Name) and isinstance(n.ctx, (ast.Store, ast.Del)):
                stores[n.id] = stores.get(n.id, 0) + 1
        shadowed = set()      # names that are also parameters of a nested def / lambda: their occurrences are counted per scope
        for n in ast.walk(fn):
            if n is not fn and isinstance(n, (ast.FunctionDef, ast.AsyncFunctionDef, ast.Lambda)):
                a = n.args
                shadowed |= {x.arg for x in a.posonlyargs + a.args + a.kwonlyargs}
        # linear order of statements
        order = {}
        parents = {}
        loops_of = {}

        def index(lst, loop_stack, parent):
            for s in lst:
                order[id(s)] = len(order)
                parents[id(s)] = parent
                loops_of[id(s)] = tuple(loop_stack)
                if isinstance(s, (ast.FunctionDef, ast.AsyncFunctionDef, ast.ClassDef)):
                    continue
                inner = loop_stack + [id(s)] if isinstance(s, (ast.For, ast.While)) else loop_stack
                for f2, l2 in stmt_lists(s):
                    if f2 == 'handler':
                        continue
                    index(l2, inner if f2 == 'body' else loop_stack, s)
                if isinstance(s, ast.Try):
                    for h in s.handlers:
                        index(h.body, loop_stack, s)
        index(fn.body, [], fn)

        for owner, fld, lst in list(walk_lists(fn)):
            for i, st in enumerate(lst):
                if not (isinstance(st, ast.Assign) and len(st.targets) == 1 and isinstance(st.targets[0], ast.Name)):
                    continue
                name = st.targets[0].id
                if name in params or name in declared or stores.get(name, 0) != 1:
                    continue
                if self.restrict is not None and name not in self.restrict:
                    continue
                if isinstance(st.value, (ast.Yield, ast.YieldFrom, ast.Await)):
                    continue
                if name in shadowed:
                    own = scoped_names(fn, name)
                    if sum(1 for n in own if isinstance(n.ctx, (ast.Store, ast.Del))) != 1:
                        continue
                    uses = [n for n in own if isinstance(n.ctx, ast.Load)]
                else:
                    uses = [n for n in ast.walk(fn) if isinstance(n, ast.Name) and n.id == name and isinstance(n.ctx, ast.Load)]
                if not uses:
                    continue
                rest = lst[i + 1:]
                # all uses must be in statements after st in the same list (dominated by the definition)
                if name in shadowed:
                    use_in_rest = [n for s in rest for n in ([s] if isinstance(s, ast.Name) else []) + scoped_names(s, name) if isinstance(n.ctx, ast.Load)]
                else:
                    use_in_rest = [n for s in rest for n in ast.walk(s) if isinstance(n, ast.Name) and n.id == name and isinstance(n.ctx, ast.Load)]
                if len(use_in_rest) != len(uses):
                    continue
                value = st.value
                fresh = isinstance(value, (ast.List, ast.Dict, ast.Set, ast.ListComp, ast.DictComp, ast.SetComp, ast.GeneratorExp)) or \
                    (isinstance(value, ast.Call) and isinstance(value.func, ast.Name) and value.func.id in (
                        'list', 'set', 'dict', 'sorted', 'iter', 'zip', 'filter', 'map', 'enumerate', 'reversed')) or \
                    (isinstance(value, ast.Call) and isinstance(value.func, ast.Attribute) and value.func.attr in ('copy', 'split', 'items', 'keys', 'values'))
                # fresh containers / iterators have identity or state: folded only when used once (at the same loop depth, not
                # deferred) or -- lists / tuples -- when every use just reads them
                ok_fresh = True
                if fresh:
                    if self._readonly_sequence(value) and all(self._readonly_use(fn, u) for u in uses):
                        ok_fresh = True
                    elif len(uses) == 1:
                        ok_fresh = loops_of.get(id(st)) == self._loops_of_node(fn, uses[0], loops_of) and not _inside_deferred(fn, uses[0], comps=True)
                    else:
                        ok_fresh = self._readonly_sequence(value) and all(self._readonly_use(fn, u) for u in uses)
                if is_pure(value) and ok_fresh:
                    reads = names_loaded(value)
                    # nothing the value reads may be re-bound between the definition and the last use
                    if self._rebound_between(reads, value, rest, name):
                        continue
                    # a value that can raise must be needed right away (so that it raises at the same point, under the same
                    # conditions, as the assignment did)
                    if self._sensitive(value) and not self._guaranteed_use(rest, name):
                        continue
                    # a use inside a nested def / lambda is evaluated later: only allowed when reads are never re-bound at all
                    if any(_inside_deferred(fn, u, comps=False) for u in uses):
                        if any(stores.get(r, 0) > (1 if r not in params else 0) for r in reads):
                            continue
                        if any(isinstance(n, (ast.Subscript, ast.Call)) for n in ast.walk(value)) and not isinstance(value, ast.Lambda):
                            continue
                    sub = _Subst({name: value})
                    for k in range(i + 1, len(lst)):
                        lst[k] = sub.visit(lst[k])
                    del lst[i]
                    if not lst:
                        lst.append(at(ast.Pass(), st))
                    return self.pass_temps()
                # impure: single use, in the next statement, evaluated first and exactly once
                if len(uses) == 1 and rest:
                    nxt = rest[0]
                    if self._single_eval_first(nxt, uses[0], name):
                        sub = _Subst({name: value})
                        lst[i + 1] = sub.visit(nxt)
                        del lst[i]
                        return self.pass_temps()

    def _rebound_between(self, reads, value, rest, name):
        '''is anything the pure value depends on written in the statements up to the last use of `name`?'''
        last = -1
        for k, s in enumerate(rest):
            if any(isinstance(n, ast.Name) and n.id == name for n in ast.walk(s)):
                last = k
        span = list(rest[:last + 1])
        if span:
            # uses only in the test / iterable of the last statement: its body runs after the last use
            ls = span[-1]
            head = ls.test if isinstance(ls, (ast.If,)) else (ls.iter if isinstance(ls, ast.For) else None)
            if head is not None:
                inner = [n for f2, l2 in stmt_lists(ls) for x in l2 for n in ast.walk(x) if isinstance(n, ast.Name) and n.id == name]
                if not inner:
                    span[-1] = ast.Expr(value=head)
        if span:
            # an assignment that uses the name in its value stores to its targets only after the value has been computed
            ls = span[-1]
            if isinstance(ls, (ast.Assign, ast.AugAssign)) and any(isinstance(n, ast.Name) and n.id == name for n in ast.walk(ls.value)):
                tgts = ls.targets if isinstance(ls, ast.Assign) else [ls.target]
                if not any(isinstance(n, ast.Name) and n.id == name for t in tgts for n in ast.walk(t)):
                    span[-1] = ast.Expr(value=ls.value)
        attrs = {n.attr for n in ast.walk(value) if isinstance(n, ast.Attribute)}
        subs = {dump(n) for n in ast.walk(value)}
        sub_bases = {dump(n.value) for n in ast.walk(value) if isinstance(n, ast.Subscript)}
        depends_on_content = any(isinstance(n, (ast.Subscript, ast.Call)) for n in ast.walk(value))
        if reads_state(value) and not isinstance(value, ast.Lambda):      # (the body of a lambda reads state when it is called, not here)
            # nothing with an effect on what the value reads may run between the definition and the uses
            roots = _state_roots(value)
            private = self._private_containers(roots, value)
            mutators = ('append', 'add', 'remove', 'pop', 'insert', 'extend', 'update', 'clear', 'discard', 'setdefault', 'popitem', 'sort', 'reverse')
            # what a comprehension evaluates after its outermost iterable runs after a use inside that iterable
            after_use = set()
            if span:
                for c_ in ast.walk(span[-1]):
                    if isinstance(c_, (ast.ListComp, ast.SetComp, ast.DictComp, ast.GeneratorExp)) and \
                            any(isinstance(x, ast.Name) and x.id == name for x in ast.walk(c_.generators[0].iter)):
                        inner_uses = [x for x in ast.walk(c_) if isinstance(x, ast.Name) and x.id == name]
                        first_uses = [x for x in ast.walk(c_.generators[0].iter) if isinstance(x, ast.Name) and x.id == name]
                        all_uses = [x for x in ast.walk(span[-1]) if isinstance(x, ast.Name) and x.id == name]
                        if len(inner_uses) == len(first_uses) == len(all_uses):
                            parts = [c_.generators[0].target] + list(c_.generators[0].ifs) + list(c_.generators[1:]) + \
                                ([c_.key, c_.value] if isinstance(c_, ast.DictComp) else [c_.elt])
                            for part in parts:
                                after_use |= {id(x) for x in ast.walk(part)}
            # calls of the last statement that come after every use in left-to-right evaluation order (only for a simple statement
            # whose expression has no conditional expression, lambda or comprehension, where source order is evaluation order)
            evaluated_after_uses = set()
            if span and isinstance(span[-1], (ast.Assign, ast.Expr, ast.Return)) and span[-1].value is not None and \
                    not any(isinstance(x, (ast.IfExp, ast.Lambda, ast.ListComp, ast.SetComp, ast.DictComp, ast.GeneratorExp, ast.NamedExpr, ast.Await,
                                           ast.Yield, ast.YieldFrom)) for x in ast.walk(span[-1].value)):
                seq = [x for x in _source_order(span[-1].value)]
                pos = {id(x): k_ for k_, x in enumerate(seq)}
                use_pos = [pos[id(x)] for x in seq if isinstance(x, ast.Name) and x.id == name]
                if use_pos:
                    for x in seq:
                        if isinstance(x, ast.Call) and pos[id(x)] > max(use_pos) and not any(isinstance(y, ast.Name) and y.id == name for y in ast.walk(x)):
                            # the call node is reached after the last use and none of its parts is a use; it must not be an argument of
                            # a call that started before the use (f(use, g()): g() runs before f consumes the value -- still after the
                            # value was READ, which is what matters for a pure value)
                            evaluated_after_uses.add(id(x))
            for k, s in enumerate(span):
                for n in ast.walk(s):
                    if id(n) in after_use and k == len(span) - 1:
                        continue
                    if isinstance(n, (ast.Yield, ast.YieldFrom)):
                        return True
                    if isinstance(n, (ast.Attribute, ast.Subscript)) and isinstance(n.ctx, (ast.Store, ast.Del)):
                        base = n.value
                        while isinstance(base, (ast.Attribute, ast.Subscript)):
                            base = base.value
                        if not private or not isinstance(base, ast.Name) or base.id in roots:
                            if not (isinstance(n, ast.Subscript) and private and isinstance(base, ast.Name) and base.id not in roots):
                                return True
                    if isinstance(n, ast.Call) and not is_pure(n):
                        uses_name = any(isinstance(x, ast.Name) and x.id == name for x in ast.walk(n))
                        if uses_name and k == len(span) - 1:
                            continue      # the call that consumes the value
                        if k == len(span) - 1 and id(n) in evaluated_after_uses:
                            continue      # runs after the last use (left-to-right evaluation of a plain expression)
                        if private:
                            # only calls that can reach the private containers matter
                            mentions = any(isinstance(x, ast.Name) and x.id in roots for x in ast.walk(n))
                            if mentions:
                                return True
                            continue
                        return True
        for s in span:
            for n in ast.walk(s):
                if isinstance(n, ast.Name) and isinstance(n.ctx, (ast.Store, ast.Del)) and n.id in reads:
                    return True
                if isinstance(n, ast.Attribute) and isinstance(n.ctx, (ast.Store, ast.Del)) and n.attr in attrs:
                    return True
                if isinstance(n, ast.Subscript) and isinstance(n.ctx, (ast.Store, ast.Del)) and (
                        dump(n.value).replace('Store()', 'Load()') in sub_bases or
                        (depends_on_content and dump(n.value).replace('Store()', 'Load()') in subs)):
                    return True
                if isinstance(n, ast.Call) and isinstance(n.func, ast.Name) and n.func.id in ('setattr', 'delattr') and attrs and n.args:
                    # setattr(X, ..) re-binds an attribute of X: it matters only when the value reads an attribute of that same X
                    bases = {dump(x.value) for x in ast.walk(value) if isinstance(x, ast.Attribute)}
                    if dump(n.args[0]) in bases:
                        return True
                if depends_on_content and isinstance(n, ast.Call) and isinstance(n.func, ast.Attribute) and \
                        n.func.attr in ('append', 'add', 'remove', 'pop', 'insert', 'extend', 'update', 'clear', 'discard', 'setdefault', 'popitem', 'sort', 'reverse') \
                        and dump(n.func.value) in subs:
                    return True
        return False

    def _private_containers(self, roots, value):
        '''every variable the value reads is (a) a local bound once to a fresh container / comprehension, or (b) a name whose
        only state-reading use in value is len(name); such state can only be changed by code that mentions the variable'''
        if not roots:
            return False
        fn = self.fn
        for r in roots:
            stores = [n for n in ast.walk(fn) if isinstance(n, ast.Name) and n.id == r and isinstance(n.ctx, (ast.Store, ast.Del))]
            ok = False
            if len(stores) == 1:
                for owner, fld, lst in walk_lists(fn):
                    for st in lst:
                        if isinstance(st, ast.Assign) and len(st.targets) == 1 and st.targets[0] is stores[0]:
                            v = st.value
                            if isinstance(v, (ast.Dict, ast.List, ast.Set, ast.ListComp, ast.DictComp, ast.SetComp)) or \
                                    (isinstance(v, ast.Call) and isinstance(v.func, ast.Name) and v.func.id in ('dict', 'list', 'set')):
                                ok = True
            if not ok:
                # len(name) / name used only as the argument of len
                occ = [n for n in ast.walk(value) if isinstance(n, ast.Name) and n.id == r]
                lens = [n for n in ast.walk(value) if isinstance(n, ast.Call) and isinstance(n.func, ast.Name) and n.func.id == 'len'
                        and len(n.args) == 1 and isinstance(n.args[0], ast.Name) and n.args[0].id == r]
                if occ and len(occ) == len(lens):
                    ok = True
            if not ok:
                return False
        return True

    def _tested(self):
        '''dumps of the expressions the function tests for absence / emptiness / type: `if E`, `E is None`, `K in E`,
        isinstance(E, ..), hasattr(E, ..), len(E) -- the function itself says these may be None, empty or of another type'''
        out = set()

        def truth(e):
            if isinstance(e, ast.BoolOp):
                for v in e.values:
                    truth(v)
            elif isinstance(e, ast.UnaryOp) and isinstance(e.op, ast.Not):
                truth(e.operand)
            elif isinstance(e, ast.Compare):
                operands = [e.left] + list(e.comparators)
                for op, (l, r) in zip(e.ops, zip(operands, operands[1:])):
                    if isinstance(op, (ast.Is, ast.IsNot, ast.Eq, ast.NotEq)) and isinstance(r, ast.Constant) and r.value is None:
                        out.add(dump(l))
                    if isinstance(op, (ast.Is, ast.IsNot, ast.Eq, ast.NotEq)) and isinstance(l, ast.Constant) and l.value is None:
                        out.add(dump(r))
                    if isinstance(op, (ast.In, ast.NotIn)):
                        out.add(dump(r))
                        if isinstance(l, ast.Constant) and l.value is None and isinstance(r, (ast.List, ast.Tuple)):
                            for x in r.elts:
                                out.add(dump(x))
                for x in operands:
                    if isinstance(x, ast.Call) and isinstance(x.func, ast.Name) and x.func.id == 'len' and x.args:
                        out.add(dump(x.args[0]))
            elif isinstance(e, ast.Call) and isinstance(e.func, ast.Name) and e.func.id in ('isinstance', 'hasattr', 'callable', 'len', 'bool') and e.args:
                out.add(dump(e.args[0]))
            elif isinstance(e, (ast.Name, ast.Attribute, ast.Subscript, ast.Call)):
                out.add(dump(e))
        for n in ast.walk(self.fn):
            if isinstance(n, (ast.If, ast.While, ast.IfExp, ast.Assert)):
                truth(n.test)
            elif isinstance(n, ast.BoolOp):
                truth(n)
            elif isinstance(n, ast.UnaryOp) and isinstance(n.op, ast.Not):
                truth(n.operand)
            elif isinstance(n, ast.comprehension):
                for c in n.ifs:
                    truth(c)
            elif isinstance(n, ast.Call) and isinstance(n.func, ast.Name) and n.func.id in ('isinstance', 'hasattr'):
                truth(n)
            elif isinstance(n, ast.Compare):
                truth(n)
            elif isinstance(n, ast.Try):
                # code under try: the author expects failures there
                for x in n.body:
                    for y in ast.walk(x):
                        if isinstance(y, (ast.Name,)):
                            out.add(dump(y))
        return {x.replace('Store()', 'Load()') for x in out}

    def _sensitive(self, value):
        '''can moving the evaluation of value across a branch change whether / when it raises?  Only when it dereferences,
        calls with, or computes from something the function itself tests for absence, emptiness or type.'''
        if not may_raise(value):
            return False
        tested = self._tested()
        for n in _walk_no_lambda(value):
            if isinstance(n, (ast.Attribute, ast.Subscript)) and dump(n.value) in tested:
                return True
            if isinstance(n, ast.Subscript) and dump(n) in tested:
                return True
            if isinstance(n, ast.Call):
                for a in list(n.args) + [k.value for k in n.keywords]:
                    if dump(a) in tested:
                        return True
                if dump(n.func) in tested:
                    return True
            if isinstance(n, ast.BinOp) and (dump(n.left) in tested or dump(n.right) in tested):
                return True
            if isinstance(n, ast.Starred) and dump(n.value) in tested:
                return True
        return False

    def _guaranteed_use(self, rest, name):
        '''the first statement after the definition that is not itself a harmless temporary evaluates `name`
        unconditionally, before anything with an effect'''
        for s in rest:
            head = None
            if isinstance(s, (ast.If, ast.While)):
                head = s.test
            elif isinstance(s, ast.For):
                head = s.iter
            elif isinstance(s, (ast.Assign, ast.AugAssign, ast.Expr, ast.Return)):
                head = s.value
            elif isinstance(s, ast.Raise):
                head = s.exc
            uses = [n for n in ast.walk(head) if isinstance(n, ast.Name) and n.id == name] if head is not None else []
            if uses:
                use = uses[0]
                if _inside_deferred(head, use, comps=True):
                    return False
                for n in ast.walk(head):
                    if isinstance(n, (ast.BoolOp, ast.IfExp)) and any(x is use for x in ast.walk(n)):
                        first = n.values[0] if isinstance(n, ast.BoolOp) else n.test
                        if not any(x is use for x in ast.walk(first)):
                            return False
                for n in _eval_order(head):
                    if n is use:
                        return True
                    if isinstance(n, ast.Call) and not is_pure(n):
                        return False
                return False
            # a statement without the name: only harmless temporaries may come in between
            if isinstance(s, ast.Assign) and len(s.targets) == 1 and isinstance(s.targets[0], ast.Name) and is_pure(s.value) \
                    and not may_raise(s.value):
                continue
            if isinstance(s, ast.Pass):
                continue
            return False
        return False

    def _loops_of_node(self, fn, node, loops_of):
        '''loop statements enclosing the statement that contains node'''
        for owner, fld, lst in walk_lists(fn):
            for st in lst:
                if isinstance(st, (ast.FunctionDef, ast.AsyncFunctionDef, ast.ClassDef)):
                    continue
                heads = [v for f2, v in ast.iter_fields(st) if f2 not in ('body', 'orelse', 'finalbody', 'handlers')]
                for h in heads:
                    for x in (h if isinstance(h, list) else [h]):
                        if isinstance(x, ast.AST) and any(n is node for n in ast.walk(x)):
                            return loops_of.get(id(st))
        return None

    def _readonly_sequence(self, value):
        if isinstance(value, (ast.ListComp, ast.List, ast.Tuple)):
            return True
        return isinstance(value, ast.Call) and isinstance(value.func, ast.Name) and value.func.id in ('list', 'sorted', 'tuple', 'set', 'frozenset')

    def _readonly_use(self, fn, use):
        parent = None
        for n in ast.walk(fn):
            for c in ast.iter_child_nodes(n):
                if c is use:
                    parent = n
        if isinstance(parent, ast.Call) and isinstance(parent.func, ast.Name) and parent.func.id in ('len', 'bool', 'sorted', 'list', 'tuple', 'set', 'dict', 'frozenset', 'zip', 'enumerate', 'iter', 'any', 'all', 'sum', 'min', 'max') and use in parent.args:
            return True
        if isinstance(parent, (ast.BoolOp, ast.If, ast.While, ast.IfExp)) or (isinstance(parent, ast.UnaryOp) and isinstance(parent.op, ast.Not)):
            return True
        if isinstance(parent, ast.Compare):
            return True
        if isinstance(parent, ast.BinOp) and isinstance(parent.op, (ast.Sub, ast.BitAnd, ast.BitOr, ast.BitXor)):
            return True
        if isinstance(parent, ast.Call) and isinstance(parent.func, ast.Attribute) and parent.func.attr in ('issubset', 'issuperset', 'union', 'intersection', 'difference', 'join') and use in parent.args:
            return True
        if isinstance(parent, ast.For) and parent.iter is use:
            return True
        if isinstance(parent, ast.comprehension) and parent.iter is use:
            return True
        if isinstance(parent, ast.Subscript) and parent.value is use and isinstance(parent.ctx, ast.Load):
            return True
        return False

    def _single_eval_first(self, nxt, use, name):
        '''in statement nxt the expression containing `use` is evaluated exactly once and nothing with an effect is
        evaluated before it'''
        if isinstance(nxt, (ast.FunctionDef, ast.AsyncFunctionDef, ast.ClassDef, ast.While, ast.Try, ast.With)):
            return False
        if isinstance(nxt, ast.If):
            top = nxt.test
        elif isinstance(nxt, ast.For):
            top = nxt.iter
        elif isinstance(nxt, (ast.Assign, ast.AugAssign, ast.Return, ast.Expr, ast.Raise)):
            top = nxt.value if not isinstance(nxt, ast.Raise) else nxt.exc
            if isinstance(nxt, ast.Assign) and any(not isinstance(t, ast.Name) and not is_pure(t) for t in nxt.targets):
                return False
        else:
            return False
        if top is None or not any(n is use for n in ast.walk(top)):
            return False
        if _inside_deferred(top, use):
            return False
        # conditional evaluation: the use must be in the operand that is certainly evaluated
        for n in ast.walk(top):
            if isinstance(n, (ast.BoolOp, ast.IfExp)) and any(x is use for x in ast.walk(n)):
                first = n.values[0] if isinstance(n, ast.BoolOp) else n.test
                if not any(x is use for x in ast.walk(first)):
                    return False
        # everything evaluated before the use must be pure (approximation of evaluation order: post-order)
        for n in _eval_order(top):
            if n is use:
                return True
            if isinstance(n, ast.Call) and not is_pure(n):
                return False
        return False

    # -- structure -----------------------------------------------------------------------------------------
    def pass_structure(self):
        fn = self.fn
        self._struct_list(fn.body, 'function', None)

    def _struct_list(self, lst, kind, loop):
        '''kind: what falling off the end of lst means: 'function' (return), 'loop' (continue), or None (goes on)'''
        self._struct_children(lst, kind, loop)
        changed = True
        guard = 0
        while changed and guard < 200:
            changed = False
            guard += 1
            # drop pass in non-singleton lists
            if len(lst) > 1 and any(is_noop(s) for s in lst):
                lst[:] = [s for s in lst if not is_noop(s)] or [lst[0]]
                changed = True
                continue
            # tail continue / valueless return -> nothing
            if lst and kind == 'loop' and isinstance(lst[-1], ast.Continue):
                if len(lst) > 1:
                    del lst[-1]
                else:
                    lst[-1] = at(ast.Pass(), lst[-1])
                changed = True
                continue
            if lst and kind == 'function' and isinstance(lst[-1], ast.Return) and lst[-1].value is None and len(lst) > 1:
                del lst[-1]
                changed = True
                continue
            # unreachable code after a jump
            for i, st in enumerate(lst[:-1]):
                if isinstance(st, JUMPS):
                    del lst[i + 1:]
                    changed = True
                    break
            if changed:
                continue
            # merge consecutive guards with identical jump bodies
            for i in range(len(lst) - 1):
                a, b = lst[i], lst[i + 1]
                if isinstance(a, ast.If) and isinstance(b, ast.If) and not a.orelse and not b.orelse and \
                        ends_in_jump(a.body) and dump(a.body) == dump(b.body):
                    a.test = mk_bool(ast.Or(), [a.test, b.test], a)
                    del lst[i + 1]
                    changed = True
                    break
            if changed:
                continue
            for i, st in enumerate(lst):
                if isinstance(st, ast.If):
                    r = self._struct_if(lst, i, st, kind, is_last=(i == len(lst) - 1))
                    if r:
                        changed = True
                        break
                elif isinstance(st, ast.While):
                    if self._struct_while(st):
                        changed = True
                        break
            if changed:
                self._struct_children(lst, kind, loop)

    def _struct_children(self, lst, kind, loop):
        for i, st in enumerate(lst):
            last = (i == len(lst) - 1)
            if isinstance(st, ast.If):
                k = kind if last else None
                self._struct_list(st.body, k, loop)
                if st.orelse:
                    self._struct_list(st.orelse, k, loop)
            elif isinstance(st, (ast.For, ast.While)):
                self._struct_list(st.body, 'loop', st)
                if st.orelse:
                    self._struct_list(st.orelse, kind if last else None, loop)
            elif isinstance(st, ast.With):
                self._struct_list(st.body, None, loop)
            elif isinstance(st, ast.Try):
                self._struct_list(st.body, None, loop)
                for h in st.handlers:
                    self._struct_list(h.body, kind if (last and not st.finalbody and not st.orelse) else None, loop)
                if st.orelse:
                    self._struct_list(st.orelse, None, loop)
                if st.finalbody:
                    self._struct_list(st.finalbody, None, loop)

    def _struct_while(self, st):
        # while True: if not c: break; BODY   ->  while c: BODY
        if isinstance(st.test, ast.Constant) and st.test.value is True and st.body and not st.orelse:
            first = st.body[0]
            if isinstance(first, ast.If) and not first.orelse and len(first.body) == 1 and isinstance(first.body[0], ast.Break):
                st.test = neg(first.test)
                st.body = st.body[1:] or [at(ast.Pass(), first)]
                return True
        return False

    def _struct_if(self, lst, i, st, kind, is_last):
        # empty else
        if st.orelse and all(is_noop(s) for s in st.orelse):
            st.orelse = []
            return True
        # empty body with else: if c: pass else: B -> if not c: B
        if all(is_noop(s) for s in st.body) and st.orelse:
            st.test = neg(st.test)
            st.body, st.orelse = st.orelse, []
            return True
        # if/elif branches with equal bodies -> or
        if len(st.orelse) == 1 and isinstance(st.orelse[0], ast.If):
            e = st.orelse[0]
            if dump(e.body) == dump(st.body):
                st.test = mk_bool(ast.Or(), [st.test, e.test], st)
                st.orelse = e.orelse
                return True
        # else after a branch that ends in a jump
        if st.orelse and ends_in_jump(st.body):
            rest = st.orelse
            st.orelse = []
            lst[i + 1:i + 1] = rest
            return True
        # jump-only else comes first
        if st.orelse and ends_in_jump(st.orelse) and not ends_in_jump(st.body):
            st.test = neg(st.test)
            body = st.body
            st.body, st.orelse = st.orelse, []
            lst[i + 1:i + 1] = body
            return True
        # orientation of a two-way if/else: the positive test comes first
        if st.orelse and not (len(st.orelse) == 1 and isinstance(st.orelse[0], ast.If)) and _is_negative(st.test):
            st.test = neg(st.test)
            st.body, st.orelse = st.orelse, st.body
            return True
        # if c: J1 ; J2 (end of list, both single jumps): positive test first
        if not st.orelse and i == len(lst) - 2 and len(st.body) == 1 and isinstance(st.body[0], (ast.Return, ast.Raise)) and \
                isinstance(lst[i + 1], (ast.Return, ast.Raise)) and _is_negative(st.test):
            st.test = neg(st.test)
            st.body, lst[i + 1] = [lst[i + 1]], st.body[0]
            return True
        # tail duplication: if c: J; X...; J  ->  if not c: X...; J
        if not st.orelse and len(st.body) == 1 and isinstance(st.body[0], (ast.Return, ast.Raise)) and i < len(lst) - 2 and \
                dump(lst[-1]) == dump(st.body[0]):
            mid = lst[i + 1:-1]
            jv = st.body[0]
            reads = names_loaded(jv)
            simple = isinstance(jv, ast.Raise) or jv.value is None or isinstance(jv.value, (ast.Name, ast.Constant))
            if simple and not any(reads & names_stored(x) for x in mid) and not any(isinstance(n, JUMPS) and not isinstance(n, ast.Raise) for x in mid for n in local_walk(x)):
                st.test = neg(st.test)
                st.body = mid
                del lst[i + 1:-1]
                return True
        # guard followed by a single jump in tail position: if c: continue; J -> if not c: J
        if not st.orelse and len(st.body) == 1 and i == len(lst) - 2 and isinstance(lst[i + 1], JUMPS) and (
                (kind == 'loop' and isinstance(st.body[0], ast.Continue)) or
                (kind == 'function' and isinstance(st.body[0], ast.Return) and st.body[0].value is None)):
            st.test = neg(st.test)
            st.body = [lst[i + 1]]
            del lst[i + 1]
            return True
        # guard followed by a single conditional jump in tail position: if g: continue; if c: J  ->  if not g and c: J
        if not st.orelse and len(st.body) == 1 and i == len(lst) - 2 and isinstance(lst[i + 1], ast.If) and not lst[i + 1].orelse and \
                len(lst[i + 1].body) == 1 and isinstance(lst[i + 1].body[0], JUMPS) and (
                (kind == 'loop' and isinstance(st.body[0], ast.Continue)) or
                (kind == 'function' and isinstance(st.body[0], ast.Return) and st.body[0].value is None)):
            nxt = lst[i + 1]
            nxt.test = mk_bool(ast.And(), [neg(st.test), nxt.test], nxt)
            del lst[i]
            return True
        # `if c: A else: B` last in a loop / function body  ->  if c: A; jump  followed by B
        if is_last and st.orelse and kind in ('loop', 'function') and not ends_in_jump(st.body) and not ends_in_jump(st.orelse):
            jump = ast.Continue() if kind == 'loop' else ast.Return(value=None)
            st.body.append(at(jump, st.body[-1]))
            rest = st.orelse
            st.orelse = []
            lst[i + 1:i + 1] = rest
            return True
        # `if c: BODY` last in a loop / function body  ->  guard
        if is_last and not st.orelse and kind in ('loop', 'function') and not all(is_noop(s) for s in st.body) and \
                not (len(st.body) == 1 and isinstance(st.body[0], JUMPS)):
            jump = ast.Continue() if kind == 'loop' else ast.Return(value=None)
            body = st.body
            st.test = neg(st.test)
            st.body = [at(jump, st)]
            lst[i + 1:i + 1] = body
            return True
        # if a: (if b: X)  ->  if a and b: X   /   if a: (if b: X elif c: Y)  ->  if a and b: X elif a and c: Y
        if not st.orelse and len(st.body) == 1 and isinstance(st.body[0], ast.If):
            inner = st.body[0]
            chain = []
            cur = inner
            while True:
                chain.append(cur)
                if len(cur.orelse) == 1 and isinstance(cur.orelse[0], ast.If):
                    cur = cur.orelse[0]
                else:
                    break
            final_else = chain[-1].orelse
            if len(chain) == 1 and not final_else:
                st.test = mk_bool(ast.And(), [st.test, inner.test], st)
                st.body = inner.body
                return True
            if is_pure(st.test) and all(is_pure(c.test) for c in chain) and len(ast.dump(st.test)) < 600:
                for c in chain:
                    c.test = mk_bool(ast.And(), [clone(st.test), c.test], c)
                if final_else:
                    chain[-1].orelse = [at(ast.If(test=clone(st.test), body=final_else, orelse=[]), final_else[0])]
                lst[i] = inner
                return True
        # if A: G1; ..; Gk; T   (Gi guards ending in a jump)  ->  if A and g1: ..; if A and gk: ..; if A: T
        if not st.orelse and len(st.body) >= 2 and is_pure(st.test) and len(ast.dump(st.test)) < 600:
            k = 0
            while k < len(st.body) and isinstance(st.body[k], ast.If) and not st.body[k].orelse and ends_in_jump(st.body[k].body) \
                    and is_pure(st.body[k].test):
                k += 1
            tail = st.body[k:]
            if k >= 1 and not any(isinstance(n, ast.If) for x in tail for n in local_walk(x)) and \
                    not (names_loaded(st.test) & set().union(*[names_stored(x) for x in st.body])):
                new = []
                for g in st.body[:k]:
                    g.test = mk_bool(ast.And(), [clone(st.test), g.test], g)
                    new.append(g)
                if tail:
                    new.append(at(ast.If(test=st.test, body=tail, orelse=[]), tail[0]))
                lst[i:i + 1] = new
                return True
        return False


def _is_negative(t):
    if isinstance(t, ast.UnaryOp) and isinstance(t.op, ast.Not):
        return True
    if isinstance(t, ast.Compare) and len(t.ops) == 1 and isinstance(t.ops[0], (ast.NotEq, ast.NotIn, ast.IsNot)):
        return True
    if isinstance(t, ast.BoolOp):
        return all(_is_negative(v) for v in t.values)
    return False


def _break_belongs_to(loop, brk):
    '''is brk a break of `loop` itself (not of an inner loop)?'''
    return any(b is brk for b in _breaks_of(loop))


def _breaks_of(loop):
    out = []
    stack = list(loop.body)
    while stack:
        n = stack.pop()
        if isinstance(n, ast.Break):
            out.append(n)
        elif isinstance(n, (ast.For, ast.While)):
            stack.extend(n.orelse)
        elif isinstance(n, (ast.FunctionDef, ast.ClassDef, ast.AsyncFunctionDef)):
            continue
        elif isinstance(n, ast.stmt):
            for f, l in stmt_lists(n):
                stack.extend(l)
    return out


def _source_order(fn):
    '''nodes of fn in source (evaluation) order: for an assignment the value comes before the target'''
    def rec(n):
        yield n
        if isinstance(n, ast.Assign):
            for x in rec(n.value):
                yield x
            for t in n.targets:
                for x in rec(t):
                    yield x
            return
        if isinstance(n, ast.AugAssign):
            for x in rec(n.value):
                yield x
            for x in rec(n.target):
                yield x
            return
        if isinstance(n, ast.For):
            for x in rec(n.iter):
                yield x
            for x in rec(n.target):
                yield x
            for s2 in n.body + n.orelse:
                for x in rec(s2):
                    yield x
            return
        for c in ast.iter_child_nodes(n):
            for x in rec(c):
                yield x
    return rec(fn)


def _has_free_loop_jump(stmts):
    '''a break / continue in stmts that leaves stmts (belongs to a loop outside)'''
    def rec(lst, depth):
        for s2 in lst:
            if isinstance(s2, (ast.Break, ast.Continue)) and depth == 0:
                return True
            if isinstance(s2, (ast.FunctionDef, ast.AsyncFunctionDef, ast.ClassDef)):
                continue
            for f2, l2 in stmt_lists(s2):
                d = depth + 1 if isinstance(s2, (ast.For, ast.While)) and f2 == 'body' else depth
                if f2 == 'handler':
                    continue
                if rec(l2, d):
                    return True
            if isinstance(s2, ast.Try):
                for h in s2.handlers:
                    if rec(h.body, depth):
                        return True
        return False
    return rec(stmts, 0)


def scoped_names(root, name):
    '''Name nodes `name` below root that refer to root's own variable: occurrences inside a nested def / lambda that has a
    parameter (or, for a def, a local) of that name belong to the inner scope and are left out'''
    out = []

    def shadows(n):
        a = n.args
        ps = {x.arg for x in a.posonlyargs + a.args + a.kwonlyargs}
        if a.vararg:
            ps.add(a.vararg.arg)
        if a.kwarg:
            ps.add(a.kwarg.arg)
        if name in ps:
            return True
        if isinstance(n, (ast.FunctionDef, ast.AsyncFunctionDef)):
            declared = any(isinstance(x, (ast.Nonlocal, ast.Global)) and name in x.names for x in ast.walk(n))
            if not declared and any(isinstance(x, ast.Name) and x.id == name and isinstance(x.ctx, (ast.Store, ast.Del)) for x in ast.walk(n)):
                return True
        return False

    def rec(n):
        for c in ast.iter_child_nodes(n):
            if isinstance(c, (ast.FunctionDef, ast.AsyncFunctionDef, ast.Lambda)) and shadows(c):
                # defaults and decorators are evaluated in the enclosing scope
                for d in list(c.args.defaults) + [x for x in c.args.kw_defaults if x is not None] + list(getattr(c, 'decorator_list', [])):
                    if isinstance(d, ast.Name) and d.id == name:
                        out.append(d)
                    rec(d)
                continue
            if isinstance(c, ast.Name) and c.id == name:
                out.append(c)
            rec(c)
    rec(root)
    return out


def _state_roots(value):
    '''the names whose STATE the (pure) value reads through a call: the receiver of a state-reading method call
    (d.get(k, v) reads d; k and v are only passed along / hashed) and every name inside the arguments of a state-reading
    function call (len(x), sorted(x), getattr(x, n)); names that only occur elsewhere are used as plain values'''
    roots = set()
    all_names = {n.id for n in ast.walk(value) if isinstance(n, ast.Name) and isinstance(n.ctx, ast.Load)} - PURE_FUNCS - STATELESS_FUNCS
    for n in ast.walk(value):
        if not isinstance(n, ast.Call):
            continue
        f = n.func
        if isinstance(f, ast.Name) and f.id in STATELESS_FUNCS:
            continue
        if isinstance(f, ast.Attribute) and f.attr in STATELESS_METHODS:
            continue
        if isinstance(f, ast.Lambda):
            continue
        if isinstance(f, ast.Attribute) and f.attr in ('get', 'keys', 'values', 'items', 'copy', 'issubset', 'issuperset', 'union', 'difference', 'intersection'):
            roots |= {x.id for x in ast.walk(f.value) if isinstance(x, ast.Name)}
            if f.attr in ('issubset', 'issuperset', 'union', 'difference', 'intersection'):
                roots |= {x.id for a in n.args for x in ast.walk(a) if isinstance(x, ast.Name)}
            continue
        return all_names       # anything else: every name may matter
    return roots & all_names


def _inside_deferred(root, node, comps=True):
    '''is node inside a lambda / nested def (/ comprehension) below root (evaluated later or repeatedly)?'''
    kinds = (ast.Lambda, ast.FunctionDef, ast.AsyncFunctionDef)
    if comps:
        kinds = kinds + (ast.ListComp, ast.SetComp, ast.DictComp, ast.GeneratorExp)

    compkinds = (ast.ListComp, ast.SetComp, ast.DictComp, ast.GeneratorExp)

    def rec(cur, deferred):
        if cur is node:
            return deferred
        for c in ast.iter_child_nodes(cur):
            d = deferred or (isinstance(cur, kinds) and cur is not root)
            if isinstance(cur, compkinds) and c is cur.generators[0]:
                # the outermost iterable of a comprehension is evaluated at once, exactly once, in the enclosing scope
                for c2 in ast.iter_child_nodes(c):
                    r = rec(c2, deferred if c2 is c.iter else d)
                    if r is not None:
                        return r
                continue
            r = rec(c, d)
            if r is not None:
                return r
        return None
    return bool(rec(root, False))


def _eval_order(e):
    '''nodes of e in (approximate) evaluation order: children before the node'''
    for c in ast.iter_child_nodes(e):
        for x in _eval_order(c):
            yield x
    yield e


def _comprehension_of(loop, name):
    '''for v in it: [if c:] name.append(e)  /  name[k] = v   ->  (generators, ('list', e) | ('dict', k, v))'''
    gens = []
    cur = loop
    while True:
        if not isinstance(cur.target, (ast.Name, ast.Tuple)):
            return None, None
        g = ast.comprehension(target=cur.target, iter=cur.iter, ifs=[], is_async=0)
        gens.append(g)
        body = cur.body
        while len(body) == 1 and isinstance(body[0], ast.If) and not body[0].orelse:
            g.ifs.append(body[0].test)
            body = body[0].body
        # guard form: if not c: continue; X
        while len(body) >= 2 and isinstance(body[0], ast.If) and not body[0].orelse and len(body[0].body) == 1 and \
                isinstance(body[0].body[0], ast.Continue):
            g.ifs.append(neg(body[0].test))
            body = body[1:]
        if len(body) == 1 and isinstance(body[0], ast.For) and not body[0].orelse:
            cur = body[0]
            continue
        if len(body) == 2 and isinstance(body[0], ast.If) and not body[0].orelse and len(body[0].body) == 2 and \
                isinstance(body[0].body[1], ast.Continue):
            body = [at(ast.If(test=body[0].test, body=[body[0].body[0]], orelse=[body[1]]), body[0])]
        if len(body) != 1:
            return None, None
        s = body[0]
        if isinstance(s, ast.If) and len(s.body) == 1 and len(s.orelse) == 1:
            def app(x):
                if isinstance(x, ast.Expr) and isinstance(x.value, ast.Call) and isinstance(x.value.func, ast.Attribute) and \
                        x.value.func.attr == 'append' and isinstance(x.value.func.value, ast.Name) and x.value.func.value.id == name \
                        and len(x.value.args) == 1 and not x.value.keywords:
                    return x.value.args[0]
                return None
            a1, a2 = app(s.body[0]), app(s.orelse[0])
            if a1 is not None and a2 is not None:
                return gens, ('list', at(ast.IfExp(test=s.test, body=a1, orelse=a2), s))
        if isinstance(s, ast.Expr) and isinstance(s.value, ast.Call) and isinstance(s.value.func, ast.Attribute) and \
                s.value.func.attr == 'append' and isinstance(s.value.func.value, ast.Name) and s.value.func.value.id == name \
                and len(s.value.args) == 1 and not s.value.keywords:
            return gens, ('list', s.value.args[0])
        if isinstance(s, ast.Assign) and len(s.targets) == 1 and isinstance(s.targets[0], ast.Subscript) and \
                isinstance(s.targets[0].value, ast.Name) and s.targets[0].value.id == name:
            return gens, ('dict', s.targets[0].slice, s.value)
        return None, None


def eliminate_returns(body, target, where):
    '''single-exit form of a helper body: every `return e` becomes `target = e` (or nothing when target is None) and the
    statements after it are moved into the other branch.  None when a return sits inside a loop / try.'''
    def has_return(stmts):
        for s in stmts:
            if isinstance(s, (ast.FunctionDef, ast.AsyncFunctionDef, ast.ClassDef)):
                continue
            for n in local_walk(s):
                if isinstance(n, ast.Return):
                    return True
        return False

    def always_returns(stmts):
        if not stmts:
            return False
        last = stmts[-1]
        if isinstance(last, (ast.Return, ast.Raise)):
            return True
        if isinstance(last, ast.If) and last.orelse:
            return always_returns(last.body) and always_returns(last.orelse)
        return False

    def T(stmts, fall):
        '''fall: what to do when control falls off stmts without return: list of statements (the default result)'''
        out = []
        for i, s in enumerate(stmts):
            if isinstance(s, ast.Return):
                if target is not None:
                    v = s.value if s.value is not None else ast.Constant(value=None)
                    out.append(at(ast.Assign(targets=[ast.Name(id=target, ctx=ast.Store())], value=v), s))
                elif s.value is not None and not is_pure(s.value):
                    out.append(at(ast.Expr(value=s.value), s))
                return out
            if isinstance(s, ast.If) and (has_return(s.body) or has_return(s.orelse)):
                rest = stmts[i + 1:]
                b = T(s.body + ([] if always_returns(s.body) else [clone(x) for x in rest]), fall)
                o = T(s.orelse + ([] if always_returns(s.orelse) else [clone(x) for x in rest]), fall)
                if b is None or o is None:
                    return None
                out.append(at(ast.If(test=s.test, body=b or [at(ast.Pass(), s)], orelse=o), s))
                return out
            if isinstance(s, (ast.For, ast.While)) and not s.orelse and not _breaks_of(s) and has_return([s]):
                # a loop that is left by `return e`: the return becomes `target = e; break`, what follows the loop runs only when
                # the loop ends normally, i.e. in its else clause
                loop = clone(s)
                ok = [True]

                def in_loop(lst):
                    res = []
                    for x in lst:
                        if isinstance(x, ast.Return):
                            if target is not None:
                                v = x.value if x.value is not None else ast.Constant(value=None)
                                res.append(at(ast.Assign(targets=[ast.Name(id=target, ctx=ast.Store())], value=v), x))
                            elif x.value is not None and not is_pure(x.value):
                                res.append(at(ast.Expr(value=x.value), x))
                            res.append(at(ast.Break(), x))
                            return res
                        if isinstance(x, ast.If):
                            x.body = in_loop(x.body) or [at(ast.Pass(), x)]
                            x.orelse = in_loop(x.orelse)
                            res.append(x)
                            continue
                        if has_return([x]):
                            ok[0] = False      # a return below a nested loop / try / with
                        res.append(x)
                    return res
                loop.body = in_loop(loop.body)
                if not ok[0]:
                    return None
                rest_t = T(stmts[i + 1:], fall)
                if rest_t is None:
                    return None
                loop.orelse = rest_t
                out.append(loop)
                return out
            if has_return([s]):
                return None
            out.append(s)
        return out + fall

    fall = []
    if target is not None and not always_returns(body):
        fall = [at(ast.Assign(targets=[ast.Name(id=target, ctx=ast.Store())], value=ast.Constant(value=None)), where)]
    return T(body, fall)


# external callables whose keyword arguments are all named parameters (ply.lex.lex, ply.yacc.yacc)
_KWORDER_FREE = {'lex.lex', 'yacc.yacc', 'ply.lex.lex', 'ply.yacc.yacc'}
# xml.etree.ElementTree factories: number of positional parameters before `attrib`
_ET_FACTORIES = {'ET.SubElement': 2, 'ET.Element': 1, 'ElementTree.SubElement': 2, 'ElementTree.Element': 1}


def _kwdotted(f):
    parts = []
    while isinstance(f, ast.Attribute):
        parts.append(f.attr)
        f = f.value
    if isinstance(f, ast.Name):
        parts.append(f.id)
        return '.'.join(reversed(parts))
    return None


def _is_nav_chain(e):
    '''e is syntactically a navigation chain: nav_one / nav_any / nav_many / one / any / many (x) followed by .KIND[..] / .nav(..) steps'''
    hops = 0
    while hops < 40:
        hops += 1
        if isinstance(e, ast.Subscript) and isinstance(e.value, ast.Attribute):
            e = e.value.value
        elif isinstance(e, ast.Call) and isinstance(e.func, ast.Attribute) and e.func.attr == 'nav':
            e = e.func.value
        elif isinstance(e, ast.Call) and len(e.args) == 1 and not e.keywords:
            f = e.func
            nm = f.id if isinstance(f, ast.Name) else (f.attr if isinstance(f, ast.Attribute) and isinstance(f.value, ast.Name) and f.value.id == 'xtuml' else None)
            return nm in ('nav_one', 'nav_any', 'nav_many', 'navigate_one', 'navigate_any', 'navigate_many', 'one', 'any', 'many') and \
                not (nm == 'any' and isinstance(e.args[0], (ast.GeneratorExp, ast.ListComp)))
        else:
            return False
    return False


_NAVCHAIN_SUGAR = '''
def __getattr__(self, kind):
    self._kind = kind
    return self

def __getitem__(self, args):
    if not isinstance(args, tuple):
        args = (args, '')
    relid, phrase = args
    return self.nav(self._kind, relid, phrase)
'''


# ---------------------------------------------------------------------------------------------------------------
class Normalizer(object):
    '''whole-repo driver: normalises every function, then inlines non-inventory helpers into their callers'''

    def __init__(self, modules, inventory=None, only=None, light=None, context=None):
        self.modules = modules
        # whole-program facts (class hierarchy, who stores which attribute) are read from every module of the analysed tree, also
        # when only one module is being normalised
        self.program = dict(context or {})
        self.program.update(modules)
        self.light = light        # None, or qualified name -> names of the reference spelling (light mode, see run_light)
        self.only = only          # None: every function; else the set of qualified names to bring into normal form
        if inventory is None:
            p = os.path.join(HERE, 'inventory.json')
            inventory = set(json.load(open(p))['functions']) if os.path.exists(p) else None
        self.inventory = inventory
        # package-level signatures of the reference tree (xtuml.relate -> [from_instance, to_instance, rel_id, phrase])
        self.external = {}
        p = os.path.join(HERE, 'inventory.json')
        if os.path.exists(p):
            try:
                self.external = json.load(open(p)).get('signatures', {})
            except Exception:
                self.external = {}

    def functions(self, tree, modname):
        '''(qualname, FunctionDef, class-or-None) for module-level functions and methods'''
        for n in tree.body:
            if isinstance(n, ast.FunctionDef):
                n._qual = '%s:%s' % (modname, n.name)
                yield n._qual, n, None
            elif isinstance(n, ast.ClassDef):
                for m in n.body:
                    if isinstance(m, ast.FunctionDef):
                        m._is_method = True
                        m._qual = '%s:%s.%s' % (modname, n.name, m.name)
                        yield m._qual, m, n

    def wanted(self, q):
        return self.only is None or q in self.only or (self.inventory is not None and q not in self.inventory)

    def _private_constants(self, tree):
        '''private module-level names bound exactly once to an immutable literal (tuples of constants, strings, numbers): a table a
        refactoring moved out of a function; it is read where it is used'''
        def immutable(e):
            if isinstance(e, ast.Constant):
                return True
            if isinstance(e, ast.Tuple):
                return all(immutable(x) for x in e.elts)
            return False
        cands, count = {}, {}
        for n in ast.walk(tree):
            if isinstance(n, ast.Name) and isinstance(n.ctx, (ast.Store, ast.Del)):
                count[n.id] = count.get(n.id, 0) + 1
            elif isinstance(n, (ast.Global, ast.Nonlocal)):
                for x in n.names:
                    count[x] = count.get(x, 0) + 2
        for st in tree.body:
            if isinstance(st, ast.Assign) and len(st.targets) == 1 and isinstance(st.targets[0], ast.Name):
                nm = st.targets[0].id
                if nm.startswith('_') and not nm.startswith('__') and immutable(st.value) and isinstance(st.value, ast.Tuple):
                    cands[nm] = st.value
        return {k: v for k, v in cands.items() if count.get(k) == 1}

    def _private_class_constants(self):
        '''(module, class) -> {name: tuple literal} for private class attributes bound exactly once in the whole analysed program (in
        that class body, to an immutable tuple) and never stored, deleted or named by a string anywhere: read through the first
        parameter of a method of that class they are that literal.  Classes with attribute hooks are left alone.'''
        def immutable(e):
            if isinstance(e, ast.Constant):
                return True
            if isinstance(e, ast.Tuple):
                return all(immutable(x) for x in e.elts)
            return False
        bound, spoiled = {}, set()
        for name, mod in self.program.items():
            for n in ast.walk(mod.tree):
                if isinstance(n, ast.Attribute) and isinstance(n.ctx, (ast.Store, ast.Del)):
                    spoiled.add(n.attr)
                elif isinstance(n, ast.Constant) and isinstance(n.value, str):
                    spoiled.add(n.value)
                elif isinstance(n, ast.ClassDef):
                    hooks = any(isinstance(m, ast.FunctionDef) and m.name in ('__getattr__', '__getattribute__', '__setattr__', '__delattr__') for m in n.body)
                    for st in n.body:
                        tg = []
                        if isinstance(st, ast.Assign):
                            tg = [x.id for t in st.targets for x in ast.walk(t) if isinstance(x, ast.Name)]
                        elif isinstance(st, (ast.AugAssign, ast.AnnAssign)) and isinstance(st.target, ast.Name):
                            tg = [st.target.id]
                        for nm in tg:
                            ok = isinstance(st, ast.Assign) and len(st.targets) == 1 and isinstance(st.targets[0], ast.Name) and \
                                isinstance(st.value, ast.Tuple) and immutable(st.value) and nm.startswith('_') and not nm.startswith('__') and \
                                not hooks and not n.keywords and not n.decorator_list
                            bound.setdefault(nm, []).append((name, n.name, st.value if ok else None))
        out = {}
        for nm, lst in bound.items():
            if len(lst) == 1 and lst[0][2] is not None and nm not in spoiled:
                out.setdefault((lst[0][0], lst[0][1]), {})[nm] = lst[0][2]
        return out

    def _navchain_sugar(self):
        '''NavChain.__getattr__ / __getitem__ of the analysed tree are (up to normal form) `chain.K` = remember K and `chain[r, p]` =
        chain.nav(K, r, p); the classes deriving from NavChain do not override them'''
        mod = self.program.get('xtuml.meta')
        if mod is None:
            return False
        want = {}
        for n in ast.parse(_NAVCHAIN_SUGAR).body:
            want[n.name] = dump(FunctionNormalizer(n).run().body)
        classes = [n for n in ast.walk(mod.tree) if isinstance(n, ast.ClassDef)]
        nc = [c for c in classes if c.name == 'NavChain']
        if len(nc) != 1:
            return False
        for c in classes:
            if c is not nc[0] and any(isinstance(m, ast.FunctionDef) and m.name in ('__getattr__', '__getitem__', '__getattribute__', 'nav') for m in c.body) and \
                    any(isinstance(b, ast.Name) and b.id in ('NavChain', 'NavOneChain', 'NavManyChain') for b in c.bases):
                return False
        for name, w in want.items():
            ms = [m for m in nc[0].body if isinstance(m, ast.FunctionDef) and m.name == name]
            if len(ms) != 1 or ms[0].decorator_list:
                return False
            m2 = clone(ms[0])
            m2.body = [x for x in m2.body if not (isinstance(x, ast.Expr) and isinstance(x.value, ast.Constant) and isinstance(x.value.value, str))] or m2.body
            try:
                if dump(FunctionNormalizer(m2).run().body) != w:
                    return False
            except Exception:
                return False
        return True

    def run(self):
        _Expr.nav_sugar = self._navchain_sugar()
        cconsts = self._private_class_constants()
        for name, mod in self.modules.items():
            sigs = self._signatures(mod.tree)
            consts = self._private_constants(mod.tree)
            for q, fn, cls in self.functions(mod.tree, name):
                if self.wanted(q):
                    cc = cconsts.get((name, cls.name)) if cls is not None else None
                    if cc and fn.args.args and (self.light is None or q not in self.light) and \
                            not any(isinstance(d, ast.Name) and d.id == 'staticmethod' for d in fn.decorator_list):
                        S = fn.args.args[0].arg
                        if not any(isinstance(x, ast.Name) and x.id == S and isinstance(x.ctx, (ast.Store, ast.Del)) for x in ast.walk(fn)):
                            class _CC(ast.NodeTransformer):
                                def visit_Attribute(s2, node):
                                    s2.generic_visit(node)
                                    if isinstance(node.ctx, ast.Load) and isinstance(node.value, ast.Name) and node.value.id == S and node.attr in cc:
                                        return at(clone(cc[node.attr]), node)
                                    return node
                            fn.body = [_CC().visit(x) for x in fn.body]
                    if consts and (self.light is None or q not in self.light):
                        local = names_stored(fn) | {x.arg for x in ast.walk(fn.args) if isinstance(x, ast.arg)}
                        use = {k: v for k, v in consts.items() if k not in local}
                        if use and any(isinstance(n, ast.Name) and n.id in use for n in ast.walk(fn)):
                            fn.body = [_Subst(use).visit(x) for x in fn.body]
                    if self.light is None or q not in self.light:
                        self._positional(fn, sigs)
                    self._nested_first(fn)
        if self.inventory is not None:
            for _ in range(3):
                if not self.inline_new_helpers():
                    break
        for name, mod in self.modules.items():
            ast.fix_missing_locations(mod.tree)

    def _signatures(self, tree):
        '''callable name -> parameter names (module-level functions; classes through their __init__)'''
        out = {}
        for n in tree.body:
            if isinstance(n, ast.FunctionDef):
                a = n.args
                if not (a.vararg or a.kwarg or a.kwonlyargs):
                    out[n.name] = [x.arg for x in a.posonlyargs + a.args]
            elif isinstance(n, ast.ClassDef):
                for m in n.body:
                    if isinstance(m, ast.FunctionDef) and m.name == '__init__':
                        a = m.args
                        if not (a.vararg or a.kwarg or a.kwonlyargs):
                            out[n.name] = [x.arg for x in a.posonlyargs + a.args][1:]
        # classes that inherit their constructor from a class of the same module
        classes_ = {n.name: n for n in tree.body if isinstance(n, ast.ClassDef)}
        for n in tree.body:
            if isinstance(n, ast.ClassDef) and n.name not in out and not any(isinstance(m, ast.FunctionDef) and m.name == '__init__' for m in n.body):
                cur, hops = n, 0
                while cur is not None and hops < 6:
                    hops += 1
                    nxt = None
                    for b in cur.bases:
                        if isinstance(b, ast.Name) and b.id in classes_:
                            nxt = classes_[b.id]
                            break
                    if nxt is None:
                        break
                    if nxt.name in out:
                        out[n.name] = out[nxt.name]
                        break
                    if any(isinstance(m, ast.FunctionDef) and m.name == '__init__' for m in nxt.body):
                        break
                    cur = nxt
        # methods whose name denotes one signature in the module: X.m(a, k=b) can be compared with X.m(a, b)
        meths = {}
        for n in ast.walk(tree):
            if isinstance(n, ast.ClassDef):
                for m in n.body:
                    if isinstance(m, ast.FunctionDef) and not (m.name.startswith('__') and m.name.endswith('__')):
                        a = m.args
                        static = any(isinstance(d, ast.Name) and d.id == 'staticmethod' for d in m.decorator_list)
                        ps = [x.arg for x in a.posonlyargs + a.args]
                        sig = None if (a.vararg or a.kwarg or a.kwonlyargs) else tuple(ps if static else ps[1:])
                        meths.setdefault(m.name, set()).add(sig)
        # (methods of the other modules of the analysed program count as well: interpret.py calls NavChain.nav of xtuml.meta; names that
        # builtin containers / strings also have are left out, the receiver may be one of those)
        builtin_names = set(dir(dict)) | set(dir(list)) | set(dir(str)) | set(dir(set)) | set(dir(tuple)) | set(dir(object))
        for m2 in getattr(self, 'program', {}).values():
            if m2.tree is tree:
                continue
            for n in ast.walk(m2.tree):
                if isinstance(n, ast.ClassDef):
                    for m in n.body:
                        if isinstance(m, ast.FunctionDef) and not (m.name.startswith('__') and m.name.endswith('__')):
                            a = m.args
                            static = any(isinstance(d, ast.Name) and d.id == 'staticmethod' for d in m.decorator_list)
                            ps = [x.arg for x in a.posonlyargs + a.args]
                            sig = None if (a.vararg or a.kwarg or a.kwonlyargs) else tuple(ps if static else ps[1:])
                            meths.setdefault(m.name, set()).add(sig)
        self._method_sigs = {k: list(next(iter(v))) for k, v in meths.items() if len(v) == 1 and None not in v and k not in out and k not in builtin_names}
        # defaults of the callables above (a trailing argument equal to its default can be left out)
        self._defaults = {}
        for n in ast.walk(tree):
            if isinstance(n, ast.FunctionDef):
                a = n.args
                ps = [x.arg for x in a.posonlyargs + a.args]
                for p_, d in zip(ps[len(ps) - len(a.defaults):], a.defaults):
                    if isinstance(d, ast.Constant):
                        self._defaults.setdefault(n.name, {}).setdefault(p_, set()).add(repr(d.value))
        # a pure forwarder  def f(*args, **kwargs): [assert | return] g(*args, **kwargs)  takes the parameters of g
        for n in tree.body:
            if isinstance(n, ast.FunctionDef) and n.args.vararg and n.args.kwarg and not (n.args.args or n.args.posonlyargs or n.args.kwonlyargs):
                body = [x for x in n.body if not (isinstance(x, ast.Expr) and isinstance(x.value, ast.Constant))]
                if len(body) != 1:
                    continue
                st = body[0]
                e = st.test if isinstance(st, ast.Assert) else (st.value if isinstance(st, (ast.Return, ast.Expr)) else None)
                if isinstance(e, ast.Call) and len(e.args) == 1 and isinstance(e.args[0], ast.Starred) and isinstance(e.args[0].value, ast.Name) and \
                        e.args[0].value.id == n.args.vararg.arg and len(e.keywords) == 1 and e.keywords[0].arg is None and \
                        isinstance(e.keywords[0].value, ast.Name) and e.keywords[0].value.id == n.args.kwarg.arg:
                    d = ast.unparse(e.func)
                    if d in out and d != n.name:
                        out[n.name] = out[d]
                    elif d in self.external:
                        out[n.name] = self.external[d]
        return out

    def _positional(self, fn, sigs):
        '''f(a, y=b) -> f(a, b) when y is the next parameter of the (same-module) callee; X.m(a, y=b) likewise when the method name m
        denotes one signature in the module; a trailing argument that repeats the callee's (one) constant default is left out'''
        local = names_stored(fn) | {x.arg for x in ast.walk(fn.args) if isinstance(x, ast.arg)}
        msigs = getattr(self, '_method_sigs', {})
        defaults = getattr(self, '_defaults', {})
        for n in ast.walk(fn):
            if not isinstance(n, ast.Call) or any(isinstance(x, ast.Starred) for x in n.args) or not all(k.arg for k in n.keywords):
                continue
            name = params = None
            if isinstance(n.func, ast.Name) and n.func.id in sigs and n.func.id not in local:
                name, params = n.func.id, sigs[n.func.id]
            elif isinstance(n.func, ast.Attribute) and n.func.attr in msigs:
                name, params = n.func.attr, msigs[n.func.attr]
            if params is None:
                continue
            if n.keywords:
                given = {k.arg: k.value for k in n.keywords}
                if len(given) == len(n.keywords) and all(k in params for k in given) and not any(k in params[:len(n.args)] for k in given):
                    while len(n.args) < len(params) and params[len(n.args)] in given:
                        n.args.append(given.pop(params[len(n.args)]))
                    n.keywords = [k for k in n.keywords if k.arg in given]
            # trailing defaults
            dm = defaults.get(name if name != getattr(n.func, 'id', None) or True else name, {})
            if isinstance(n.func, ast.Name) and n.func.id in sigs and n.func.id[:1].isupper():
                dm = defaults.get('__init__', {}) if False else dm
            while not n.keywords and n.args and len(n.args) <= len(params):
                p_ = params[len(n.args) - 1]
                dv = dm.get(p_)
                last = n.args[-1]
                if dv and len(dv) == 1 and isinstance(last, ast.Constant) and repr(last.value) in dv and not isinstance(n.func, ast.Name):
                    n.args.pop()
                else:
                    break

    def _nested_first(self, fn):
        if self.light is not None:
            q = getattr(fn, '_qual', None)
            if q in self.light:
                FunctionNormalizer(fn, self).run_light(self.light[q])
                return
            if self.inventory is not None and q in self.inventory:
                return
        for n in ast.walk(fn):
            if isinstance(n, ast.FunctionDef) and n is not fn:
                FunctionNormalizer(n, self).run()
        FunctionNormalizer(fn, self).run()

    def inline_new_helpers(self):
        any_change = False
        for name, mod in self.modules.items():
            helpers = {}      # (classname or None, fname) -> def
            classes = {}
            for q, fn, cls in self.functions(mod.tree, name):
                if q not in self.inventory and not (fn.name.startswith('__') and fn.name.endswith('__')):
                    helpers[(cls.name if cls else None, fn.name)] = fn
                if cls is not None:
                    classes[cls.name] = cls
            if not helpers:
                continue
            for q, fn, cls in self.functions(mod.tree, name):
                if not self.wanted(q):
                    continue
                def resolve(call, cls=cls, fn=fn):
                    f = call.func
                    d = None
                    if isinstance(f, ast.Name):
                        d = helpers.get((None, f.id))
                    elif isinstance(f, ast.Attribute) and isinstance(f.value, ast.Name) and cls is not None and \
                            f.value.id in ('self', 'cls', cls.name):
                        d = self._method(helpers, classes, cls, f.attr)
                    if d is None or d is fn:
                        return None
                    if self._reaches(d, fn, helpers):
                        return None
                    return d
                fnorm = FunctionNormalizer(fn, self)
                before = dump(fn.body)
                # helper used as a value -> lambda
                self._helper_values(fn, cls, helpers, classes)
                for _k in range(8):
                    if not fnorm.inline_generator_loops(resolve):
                        break
                fnorm.inline_calls(resolve)
                # nested functions / lambdas inside fn
                for n in ast.walk(fn):
                    if isinstance(n, ast.FunctionDef) and n is not fn:
                        FunctionNormalizer(n, self).inline_calls(resolve)
                if dump(fn.body) != before:
                    any_change = True
                    self._nested_first(fn)
                    if self.light is None or q not in self.light:
                        # calls that came in with the inlined helper (or were spliced from ** dictionaries) get the positional spelling, too
                        b2 = dump(fn.body)
                        self._positional(fn, self._signatures(mod.tree))
                        if dump(fn.body) != b2:
                            self._nested_first(fn)
        return any_change

    def _method(self, helpers, classes, cls, name):
        seen = set()
        cur = cls
        while cur is not None and cur.name not in seen:
            seen.add(cur.name)
            d = helpers.get((cur.name, name))
            if d is not None:
                return d
            if any(isinstance(m, ast.FunctionDef) and m.name == name for m in cur.body):
                return None     # an inventory method of that name
            nxt = None
            for b in cur.bases:
                if isinstance(b, ast.Name) and b.id in classes:
                    nxt = classes[b.id]
                    break
            cur = nxt
        return None

    def _reaches(self, d, fn, helpers):
        '''does helper d (transitively through helpers) call itself?'''
        seen = set()
        stack = [d]
        while stack:
            cur = stack.pop()
            for n in ast.walk(cur):
                if isinstance(n, ast.Call):
                    nm = n.func.id if isinstance(n.func, ast.Name) else (n.func.attr if isinstance(n.func, ast.Attribute) else None)
                    for (c, f), h in helpers.items():
                        if f == nm:
                            if h is d:
                                return True
                            if id(h) not in seen:
                                seen.add(id(h))
                                stack.append(h)
        return False

    def _helper_values(self, fn, cls, helpers, classes):
        '''`key=self._sort_key` -> `key=lambda el: <body of the helper>` when the helper is a single return'''
        call_funcs = {id(n.func) for n in ast.walk(fn) if isinstance(n, ast.Call)}

        outer = self

        class V(ast.NodeTransformer):
            def closure(s2, d, node, bound):
                '''a helper with a body of several statements, used as a value: a nested def of fn with the receiver captured (the
                bound method and the closure behave alike when called)'''
                if d.name in pending:
                    return at(ast.Name(id=d.name, ctx=ast.Load()), node)
                a = clone(d.args)
                body = [clone(x) for x in d.body if not (isinstance(x, ast.Expr) and isinstance(x.value, ast.Constant) and isinstance(x.value.value, str))]
                if not body or any(isinstance(x, (ast.Yield, ast.YieldFrom, ast.Global, ast.Nonlocal)) for b in body for x in ast.walk(b)):
                    return node
                taken = {x.id for x in ast.walk(fn) if isinstance(x, ast.Name)} | {x.arg for x in ast.walk(fn) if isinstance(x, ast.arg)} | \
                    {x.name for x in ast.walk(fn) if isinstance(x, ast.FunctionDef)}
                if d.name in taken:
                    return node
                if bound:
                    if not a.args or not isinstance(node.value, ast.Name):
                        return node
                    selfname = a.args[0].arg
                    a.args = a.args[1:]
                    recv = node.value.id
                    inner = {x.id for b in body for x in ast.walk(b) if isinstance(x, ast.Name)} | {x.arg for x in ast.walk(a) if isinstance(x, ast.arg)}
                    if any(isinstance(x, ast.Name) and x.id == selfname and isinstance(x.ctx, (ast.Store, ast.Del)) for b in body for x in ast.walk(b)):
                        return node
                    if selfname != recv:
                        if recv in inner:
                            return node
                        body = [_Rename({selfname: recv}).visit(b) for b in body]
                    if any(isinstance(x, ast.Name) and x.id == recv and isinstance(x.ctx, (ast.Store, ast.Del)) for x in ast.walk(fn)):
                        return node
                pending[d.name] = at(ast.FunctionDef(name=d.name, args=a, body=body, decorator_list=[], returns=None, type_comment=None,
                                                     **({'type_params': []} if 'type_params' in ast.FunctionDef._fields else {})), node)
                return at(ast.Name(id=d.name, ctx=ast.Load()), node)

            def lam(s2, d, node, bound):
                body = [s for s in d.body if not (isinstance(s, ast.Expr) and isinstance(s.value, ast.Constant))]
                if len(body) != 1 or not isinstance(body[0], ast.Return) or body[0].value is None:
                    return s2.closure(d, node, bound)
                a = clone(d.args)
                expr = clone(body[0].value)
                if bound and a.args:
                    selfname = a.args[0].arg
                    a.args = a.args[1:]
                    expr = _Subst({selfname: node.value}).visit(expr)
                return at(ast.Lambda(args=a, body=expr), node)

            def visit_Attribute(s2, node):
                s2.generic_visit(node)
                if id(node) in call_funcs or not isinstance(node.ctx, ast.Load):
                    return node
                if isinstance(node.value, ast.Name) and cls is not None and node.value.id in ('self',):
                    d = outer._method(helpers, classes, cls, node.attr)
                    if d is not None and d is not fn:
                        static = any(isinstance(x, ast.Name) and x.id == 'staticmethod' for x in d.decorator_list)
                        return s2.lam(d, node, not static)
                return node

            def visit_Name(s2, node):
                if id(node) in call_funcs or not isinstance(node.ctx, ast.Load):
                    return node
                d = helpers.get((None, node.id))
                if d is not None and d is not fn and node.id not in names_stored(fn):
                    return s2.lam(d, node, False)
                return node
        pending = {}
        V().visit(fn)
        for name_, d_ in pending.items():
            # the nested def goes right before the first statement of fn that mentions it
            doc = 1 if fn.body and isinstance(fn.body[0], ast.Expr) and isinstance(fn.body[0].value, ast.Constant) else 0
            pos = next((k for k, st in enumerate(fn.body) if k >= doc and any(isinstance(x, ast.Name) and x.id == name_ for x in ast.walk(st))), doc)
            fn.body.insert(pos, d_)
            ast.fix_missing_locations(fn)


def normalise_modules(modules):
    if os.environ.get('PYX_NO_NORMAL'):
        return
    Normalizer(modules).run()
