'''
Earley recogniser for *sentential forms* of a grammar extracted by sa/grammar.py: the input is a list of grammar
symbols (terminals AND nonterminals); a nonterminal in the input matches the same nonterminal in a production
(it stands for "any text derived from it").  Used to decide whether every text a generator can emit derives from
the grammar symbol of its construct.
'''


class Earley(object):
    def __init__(self, grammar):
        self.g = grammar
        self.by_head = {}
        for p in grammar.productions:
            self.by_head.setdefault(p.head, []).append(tuple(p.syms))
        self.nonterminals = set(self.by_head)
        self.nullable = set()
        changed = True
        while changed:
            changed = False
            for h, alts in self.by_head.items():
                if h in self.nullable:
                    continue
                for a in alts:
                    if all(s in self.nullable for s in a):
                        self.nullable.add(h)
                        changed = True
                        break

    def derives(self, start_seq, inp):
        '''can the symbol sequence start_seq derive the sentential form inp?'''
        START = '<start>'
        by_head = dict(self.by_head)
        by_head[START] = [tuple(start_seq)]
        n = len(inp)
        chart = [set() for _ in range(n + 1)]
        order = [[] for _ in range(n + 1)]

        def add(i, item):
            if item not in chart[i]:
                chart[i].add(item)
                order[i].append(item)

        add(0, (START, tuple(start_seq), 0, 0))
        for i in range(n + 1):
            k = 0
            while k < len(order[i]):
                head, rhs, dot, origin = order[i][k]
                k += 1
                if dot < len(rhs):
                    sym = rhs[dot]
                    if sym in by_head:
                        for alt in by_head[sym]:
                            add(i, (sym, alt, 0, i))
                        if sym in self.nullable:
                            add(i, (head, rhs, dot + 1, origin))
                    if i < n and inp[i] == sym:
                        add(i + 1, (head, rhs, dot + 1, origin))
                else:
                    for (h2, r2, d2, o2) in list(chart[origin]):
                        if d2 < len(r2) and r2[d2] == head:
                            add(i, (h2, r2, d2 + 1, o2))
        return (START, tuple(start_seq), len(start_seq), 0) in chart[n]
