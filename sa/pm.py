'''
Tiny structural pattern matcher over `ast` used by the rules.

A pattern is Python source; names that start with `_` followed by an upper
case letter (`_X`, `_ARGS`) are metavariables binding any expression.  `__`
(double underscore alone) is a wildcard.  A repeated metavariable must bind
structurally equal sub-trees.  Statement patterns work as well.

    m = match('_X.upper()', node)      -> {'_X': <ast>} or None
    for node, m in find('_A == _B', tree): ...
'''
import ast

from .src import norm


_cache = {}


def _parse(pattern):
    if pattern in _cache:
        return _cache[pattern]
    mod = ast.parse(pattern)
    if len(mod.body) == 1 and isinstance(mod.body[0], ast.Expr):
        pat = mod.body[0].value
    elif len(mod.body) == 1:
        pat = mod.body[0]
    else:
        pat = mod.body
    _cache[pattern] = pat
    return pat


def _is_meta(name):
    return len(name) >= 2 and name[0] == '_' and name[1].isupper()


DEFAULTS = {}        # (callable name, parameter) -> {dump of default}, (callable name, parameter, 'node') -> default expression
SIGNATURES_ALL = {}  # callable name -> every signature (parameter name list) that name has in the analysed tree
SIGNATURES = {}     # callable name -> parameter names (set by the driver from the analysed tree; unique names only)


def _callee_name(call):
    f = call.func
    if isinstance(f, ast.Name):
        return f.id
    if isinstance(f, ast.Attribute):
        if isinstance(f.value, ast.Name) and ('%s.%s' % (f.value.id, f.attr)) in SIGNATURES:
            return '%s.%s' % (f.value.id, f.attr)
        return f.attr
    return None


def _params_for(call):
    '''parameters of the callee: a method called on self is looked up in the enclosing class (and its bases by name), any
    other callee by its name when that name denotes one signature in the tree'''
    f = call.func
    if isinstance(f, ast.Attribute) and isinstance(f.value, ast.Name) and f.value.id in ('self', 'cls'):
        cur = getattr(call, '_parent', None)
        while cur is not None and not isinstance(cur, ast.ClassDef):
            cur = getattr(cur, '_parent', None)
        seen = set()
        while isinstance(cur, ast.ClassDef) and cur.name not in seen:
            seen.add(cur.name)
            for c in cur.body:
                if isinstance(c, ast.FunctionDef) and c.name == f.attr:
                    a = c.args
                    if a.vararg or a.kwarg or a.kwonlyargs:
                        return None
                    ps = [x.arg for x in a.posonlyargs + a.args]
                    return ps[1:] if ps and ps[0] in ('self', 'cls') else ps
            nxt = None
            mod = getattr(cur, '_parent', None)
            for b in cur.bases:
                if isinstance(b, ast.Name) and isinstance(mod, ast.Module):
                    for c in mod.body:
                        if isinstance(c, ast.ClassDef) and c.name == b.id:
                            nxt = c
            cur = nxt
        return None
    return SIGNATURES.get(_callee_name(call))


def _canonical_args(call, params=None):
    '''positional/keyword arguments of a call as one list in parameter order (None when the callee is unknown or the call
    cannot be aligned with its signature)'''
    if params is None:
        params = _params_for(call)
    if params is None or any(isinstance(a, ast.Starred) for a in call.args) or any(k.arg is None for k in call.keywords):
        return None
    if len(call.args) > len(params):
        return None
    out = dict(zip(params, call.args))
    for k in call.keywords:
        if k.arg not in params or k.arg in out:
            return None
        out[k.arg] = k.value
    # an omitted parameter has its default value (when the name has one default throughout the tree)
    nm = _callee_name(call)
    for p_ in params:
        if p_ not in out and len(DEFAULTS.get((nm, p_), ())) == 1:
            out[p_] = DEFAULTS[(nm, p_, 'node')]
    return out


def _match_call_by_signature(pat, node, env):
    '''f(a, y=b) matches f(a, b): the same arguments reach the same parameters'''
    if _callee_name(pat) != _callee_name(node) or _is_meta(_callee_name(pat) or ''):
        return False
    params = _params_for(node)
    cands = [params] if params is not None else list(SIGNATURES_ALL.get(_callee_name(node), []))
    for params in cands:
        pa, na = _canonical_args(pat, params), _canonical_args(node, params)
        if pa is None or na is None or set(pa) != set(na):
            continue
        trial = dict(env)
        if not _match(pat.func, node.func, trial):
            continue
        if all(_match(pa[k], na[k], trial) for k in pa):
            env.clear()
            env.update(trial)
            return True
    return False


def _match(pat, node, env):
    if isinstance(pat, ast.Call) and isinstance(node, ast.Call) and len(pat.keywords) > 1 and len(pat.keywords) == len(node.keywords) and \
            all(k.arg is not None for k in pat.keywords) and all(k.arg is not None for k in node.keywords):
        # keyword arguments match by name, in whatever order they are written
        pn, nn = [k.arg for k in pat.keywords], [k.arg for k in node.keywords]
        if pn != nn and sorted(pn) == sorted(nn) and len(set(pn)) == len(pn):
            byname = {k.arg: k for k in node.keywords}
            node = ast.copy_location(ast.Call(func=node.func, args=node.args, keywords=[byname[a] for a in pn]), node)
    if isinstance(pat, ast.Call) and isinstance(node, ast.Call) and SIGNATURES and \
            (len(pat.args) != len(node.args) or [k.arg for k in pat.keywords] != [k.arg for k in node.keywords]):
        if _match_call_by_signature(pat, node, env):
            return True
    if isinstance(pat, ast.Name):
        if pat.id == '__':
            return True
        if _is_meta(pat.id):
            if pat.id in env:
                return norm(env[pat.id]) == norm(node)
            env[pat.id] = node
            return True
    if isinstance(pat, ast.Expr) and isinstance(pat.value, ast.Name) and not isinstance(node, ast.Expr):
        # a bare metavariable statement pattern matches any statement
        if pat.value.id == '__' or _is_meta(pat.value.id):
            if pat.value.id != '__':
                env[pat.value.id] = node
            return True
    if isinstance(pat, ast.AugAssign) and isinstance(node, ast.Assign) and len(node.targets) == 1 and isinstance(node.value, ast.BinOp) and \
            type(node.value.op) is type(pat.op) and norm(node.value.left) == norm(node.targets[0]):
        # N += V  is also spelled  N = N + V  (the normal form of an augmented assignment to a local holding an immutable value)
        saved = dict(env)
        if _match(pat.target, node.targets[0], env) and _match(pat.value, node.value.right, env):
            return True
        env.clear()
        env.update(saved)
        return False
    if type(pat) is not type(node):
        return False
    if isinstance(pat, ast.Compare) and len(pat.ops) == 1 and len(node.ops) == 1 and isinstance(pat.ops[0], (ast.Eq, ast.NotEq)) and \
            type(pat.ops[0]) is type(node.ops[0]) and not getattr(node, '_pm_swapped', False):
        # a == b is also spelled b == a
        saved = dict(env)
        if _match(pat.left, node.left, env) and _match(pat.comparators[0], node.comparators[0], env):
            return True
        env.clear()
        env.update(saved)
        if _match(pat.left, node.comparators[0], env) and _match(pat.comparators[0], node.left, env):
            return True
        env.clear()
        env.update(saved)
        return False
    if isinstance(pat, ast.Constant):
        return type(pat.value) is type(node.value) and pat.value == node.value
    for field in pat._fields:
        if field in ('ctx', 'type_comment', 'kind'):
            continue
        pv = getattr(pat, field, None)
        nv = getattr(node, field, None)
        if isinstance(pv, list):
            if not isinstance(nv, list) or len(pv) != len(nv):
                return False
            for a, b in zip(pv, nv):
                if isinstance(a, ast.AST):
                    if not _match(a, b, env):
                        return False
                elif a != b:
                    return False
        elif isinstance(pv, ast.AST):
            if not isinstance(nv, ast.AST) or not _match(pv, nv, env):
                return False
        else:
            if isinstance(pv, str) and field in ('attr', 'arg', 'id', 'name') and _is_meta(pv):
                if pv in env:
                    if env[pv] != nv:
                        return False
                else:
                    env[pv] = nv
            elif pv != nv:
                return False
    return True


def match(pattern, node, env=None):
    if isinstance(pattern, (list, tuple)):
        pat = [_parse(p) if isinstance(p, str) else p for p in pattern]
    else:
        pat = _parse(pattern) if isinstance(pattern, str) else pattern
    e = dict(env or {})
    if isinstance(pat, list):
        if not isinstance(node, list) or len(pat) != len(node):
            return None
        for a, b in zip(pat, node):
            if isinstance(b, ast.Expr) and isinstance(a, ast.expr):
                b = b.value
            if not _match(a, b, e):
                return None
        return e
    if isinstance(node, ast.Expr) and isinstance(pat, ast.expr):
        node = node.value
    if _match(pat, node, e):
        return e
    return None


def match_any(patterns, node):
    for p in patterns:
        m = match(p, node)
        if m is not None:
            return m
    return None


def find(pattern, tree, local=False):
    '''yield (node, env) for every sub-node of tree matching pattern'''
    pat = _parse(pattern) if isinstance(pattern, str) else pattern
    if isinstance(tree, list):
        nodes = []
        for t in tree:
            nodes.extend(ast.walk(t))
    else:
        nodes = ast.walk(tree)
    for n in nodes:
        e = {}
        if _match(pat, n, e):
            yield n, e


def contains(pattern, tree):
    for _ in find(pattern, tree):
        return True
    return False


# ---------------------------------------------------------------------------
# canonical form for slot rules: behaviour-preserving noise is removed before matching
#   * logging / print statements are dropped
#   * a temporary that is assigned once and used exactly once, in the immediately following statement, is inlined
# so that  `s = f(x); return g(s)`  and  `return g(f(x))`  match the same pattern.
def _is_noise(st):
    if isinstance(st, ast.Expr) and isinstance(st.value, ast.Call):
        f = st.value.func
        if isinstance(f, ast.Attribute) and isinstance(f.value, ast.Name) and f.value.id in ('logger', 'logging'):
            return True
        if isinstance(f, ast.Name) and f.id == 'print':
            return True
    if isinstance(st, ast.Expr) and isinstance(st.value, ast.Constant) and isinstance(st.value.value, str):
        return True
    if isinstance(st, ast.Pass):
        return True
    return False


class _Subst(ast.NodeTransformer):
    def __init__(self, name, value):
        self.name, self.value, self.count = name, value, 0

    def visit_Name(self, node):
        if node.id == self.name and isinstance(node.ctx, ast.Load):
            self.count += 1
            return self.value
        return node


def canon(stmts):
    '''returns a NEW list of statements (re-parsed copies) in canonical form'''
    text = '\n'.join(ast.unparse(s) for s in stmts) or 'pass'
    body = ast.parse(text).body
    body = [s for s in body if not _is_noise(s)]
    changed = True
    while changed:
        changed = False
        for i in range(len(body) - 1):
            st = body[i]
            if not (isinstance(st, ast.Assign) and len(st.targets) == 1 and isinstance(st.targets[0], ast.Name)):
                continue
            name = st.targets[0].id
            loads_next = [n for n in ast.walk(body[i + 1]) if isinstance(n, ast.Name) and n.id == name and isinstance(n.ctx, ast.Load)]
            stores_next = [n for n in ast.walk(body[i + 1]) if isinstance(n, ast.Name) and n.id == name and isinstance(n.ctx, ast.Store)]
            later = [n for s in body[i + 2:] for n in ast.walk(s) if isinstance(n, ast.Name) and n.id == name]
            inside_lambda = any(isinstance(p, (ast.Lambda, ast.FunctionDef)) and any(
                isinstance(n, ast.Name) and n.id == name for n in ast.walk(p)) for p in ast.walk(body[i + 1]))
            compound = isinstance(body[i + 1], (ast.For, ast.While, ast.If, ast.With, ast.Try, ast.FunctionDef))
            if len(loads_next) == 1 and not stores_next and not later and not inside_lambda and not compound:
                body[i + 1] = ast.fix_missing_locations(_Subst(name, st.value).visit(body[i + 1]))
                del body[i]
                changed = True
                break
    for s in body:
        for sub in ast.walk(s):
            for fld in ('body', 'orelse'):
                v = getattr(sub, fld, None)
                if isinstance(v, list) and v and isinstance(v[0], ast.stmt) and sub is not s or (isinstance(v, list) and v and isinstance(v[0], ast.stmt) and isinstance(sub, (ast.If, ast.For, ast.While))):
                    pass
    return body


def match_canon(patterns, stmts, env=None):
    '''match a list of statement patterns against a statement list, both in canonical form'''
    pats = ast.parse('\n'.join(patterns)).body
    pats = canon(pats)
    code = canon(stmts)
    return match(pats, code, env)
