'''
Engine `src`: loads every *.py under xtuml/ and bridgepoint/ of the analysed
tree (PYX_REPO, default /repo) as `ast` trees WITHOUT importing or executing
them, and offers name-resolved lookups (functions, classes, MRO, module-level
constants) plus small helpers used by all rules.
'''
import ast
import os
import hashlib


class AnalysisError(Exception):
    '''An anchor vanished or an idiom is outside what an extractor understands.
    Reported as ANALYSIS-ERROR (exit 2), never as a violation.'''


PACKAGES = ('xtuml', 'bridgepoint')
GENERATED = ('__xtuml_lextab.py', '__xtuml_parsetab.py',
             '__oal_lextab.py', '__oal_parsetab.py')


def repo_root():
    return os.environ.get('PYX_REPO', '/repo')


class Module(object):
    def __init__(self, name, path, relpath, source):
        self.name = name
        self.path = path
        self.relpath = relpath
        self.source = source
        self.tree = ast.parse(source, filename=path)
        self.annotate()

    def annotate(self):
        for node in ast.walk(self.tree):
            for child in ast.iter_child_nodes(node):
                child._parent = node
        self.tree._parent = None
        for node in ast.walk(self.tree):
            node._module = self


class Repo(object):
    def __init__(self, root=None):
        self.root = root or repo_root()
        self.modules = {}
        for pkg in PACKAGES:
            d = os.path.join(self.root, pkg)
            if not os.path.isdir(d):
                raise AnalysisError('package directory %s is missing' % d)
            for fn in sorted(os.listdir(d)):
                if not fn.endswith('.py') or fn in GENERATED:
                    continue
                path = os.path.join(d, fn)
                with open(path, 'r', encoding='utf-8') as f:
                    source = f.read()
                name = pkg if fn == '__init__.py' else '%s.%s' % (pkg, fn[:-3])
                try:
                    self.modules[name] = Module(name, path, '%s/%s' % (pkg, fn), source)
                except SyntaxError as e:
                    raise AnalysisError('%s does not parse: %s' % (path, e))
        self._func_cache = {}
        self.equivalence = None
        if not os.environ.get('PYX_NO_EQUIV'):
            from . import equiv
            cache = os.environ.get('PYX_EQUIV_CACHE')     # development tools only (refall / reseed run 20 checks per scratch tree);
            if not cache:                                 # the registered checks never set it: nothing is cached between their runs
                self.equivalence = equiv.apply(self)
            else:
                self._equiv_cached(equiv, cache)

    def _equiv_cached(self, equiv, cache):
        import pickle
        h = hashlib.sha256(self.digest().encode())
        here = os.path.dirname(os.path.abspath(__file__))
        for fn in ('normal.py', 'equiv.py', 'reference.json', 'inventory.json', 'src.py'):
            with open(os.path.join(here, fn), 'rb') as f:
                h.update(f.read())
        path = os.path.join(cache, h.hexdigest()[:32] + '.pkl')
        if os.path.exists(path):
            try:
                with open(path, 'rb') as f:
                    summary, trees = pickle.load(f)
                for name, tree in trees.items():
                    self.modules[name].tree = tree
                    self.modules[name].annotate()
                self.equivalence = summary
                return
            except Exception:
                pass
        self.equivalence = equiv.apply(self)
        trees = {}
        for name, m in self.modules.items():
            for node in ast.walk(m.tree):
                for a in ('_parent', '_module'):
                    if hasattr(node, a):
                        delattr(node, a)
            trees[name] = m.tree
        try:
            os.makedirs(cache, exist_ok=True)
            tmp = path + '.%d.tmp' % os.getpid()
            with open(tmp, 'wb') as f:
                pickle.dump((self.equivalence, trees), f, protocol=pickle.HIGHEST_PROTOCOL)
            os.replace(tmp, path)
        except Exception:
            pass
        for m in self.modules.values():
            m.annotate()

    # -- digests -----------------------------------------------------------
    def digest(self, names=None):
        h = hashlib.sha256()
        for name in sorted(names or self.modules):
            h.update(self.modules[name].source.encode('utf-8'))
        return h.hexdigest()[:16]

    # -- lookups -----------------------------------------------------------
    def module(self, name):
        if name not in self.modules:
            raise AnalysisError('module %s not found' % name)
        return self.modules[name]

    def _lookup(self, qual, want):
        modname, _, path = qual.partition(':')
        node = self.module(modname).tree
        for part in path.split('.'):
            found = None
            for child in node.body:
                if isinstance(child, (ast.FunctionDef, ast.ClassDef)) and child.name == part:
                    found = child  # last definition wins, as in Python
            if found is None:
                return None
            node = found
        if not isinstance(node, want):
            return None
        return node

    def func(self, qual, required=True):
        '''qual = "xtuml.meta:Link.connect" -> ast.FunctionDef'''
        node = self._lookup(qual, ast.FunctionDef)
        if node is None and required:
            raise AnalysisError('anchor function %s not found' % qual)
        return node

    def signatures(self):
        '''callable name -> parameter names, for names that denote ONE signature in the analysed tree (functions, methods
        without self, classes through __init__); used to compare calls modulo positional / keyword spelling'''
        seen = {}
        for m in self.modules.values():
            for n in ast.walk(m.tree):
                if isinstance(n, ast.ClassDef):
                    for c in n.body:
                        if isinstance(c, ast.FunctionDef) and c.name == '__init__':
                            a = c.args
                            if not (a.vararg or a.kwarg or a.kwonlyargs):
                                seen.setdefault(n.name, set()).add(tuple(x.arg for x in a.posonlyargs + a.args)[1:])
                            else:
                                seen.setdefault(n.name, set()).add(None)
                elif isinstance(n, ast.FunctionDef) and not (n.name.startswith('__') and n.name.endswith('__')):
                    a = n.args
                    ps = tuple(x.arg for x in a.posonlyargs + a.args)
                    parent = getattr(n, '_parent', None)
                    if isinstance(parent, ast.ClassDef) and ps and ps[0] in ('self', 'cls'):
                        ps = ps[1:]
                    if a.vararg or a.kwarg or a.kwonlyargs:
                        seen.setdefault(n.name, set()).add(None)
                    else:
                        seen.setdefault(n.name, set()).add(ps)
        self._all_signatures = {k: [list(x) for x in v if x is not None] for k, v in seen.items()}
        # package-qualified names: xtuml.f / bridgepoint.f -> the one module-level function f of that package
        qualified = {}
        for mname, m in self.modules.items():
            pkg = mname.split('.')[0]
            for n in m.tree.body:
                if isinstance(n, ast.FunctionDef):
                    a = n.args
                    sig = None if (a.vararg or a.kwarg or a.kwonlyargs) else tuple(x.arg for x in a.posonlyargs + a.args)
                    qualified.setdefault('%s.%s' % (pkg, n.name), set()).add(sig)
        self._qualified = {k: list(next(iter(v))) for k, v in qualified.items() if len(v) == 1 and None not in v}
        # defaults: (callable name, parameter) -> default expressions seen
        self._defaults = {}
        for m in self.modules.values():
            for n in ast.walk(m.tree):
                if isinstance(n, ast.FunctionDef):
                    a = n.args
                    ps = a.posonlyargs + a.args
                    for prm, d in zip(ps[len(ps) - len(a.defaults):], a.defaults):
                        key = n.name
                        parent = getattr(n, '_parent', None)
                        if n.name == '__init__' and isinstance(parent, ast.ClassDef):
                            key = parent.name
                        self._defaults.setdefault((key, prm.arg), set()).add(ast.dump(d))
                        self._defaults.setdefault((key, prm.arg, 'node'), d)
        out = {k: list(next(iter(v))) for k, v in seen.items() if len(v) == 1 and None not in v}
        out.update(self._qualified)
        return out

    def exception_bases(self):
        '''class name -> names of all its (transitive, in-tree) base classes'''
        direct = {}
        for m in self.modules.values():
            for n in ast.walk(m.tree):
                if isinstance(n, ast.ClassDef):
                    direct[n.name] = [(dotted(b) or '').split('.')[-1] for b in n.bases]
        out = {}
        for c in direct:
            seen, stack = set(), list(direct[c])
            while stack:
                b = stack.pop()
                if b and b not in seen:
                    seen.add(b)
                    stack.extend(direct.get(b, []))
            out[c] = seen
        return out

    def is_helper(self, qual):
        '''a function that is not in the reference inventory (a newly introduced helper: its body is accounted for in its callers)'''
        from . import equiv
        try:
            return qual not in equiv.inventory()
        except Exception:
            return False

    def absorbed(self, qual):
        '''a helper outside the reference inventory that no function the rules read still refers to: every use of it was
        inlined into its callers by the equivalence step, so its body must not be counted a second time'''
        if not self.is_helper(qual):
            return False
        from . import equiv
        modname, _, q = qual.partition(':')
        name = q.split('.')[-1]
        mod = self.modules.get(modname)
        if mod is None:
            return False
        for q2, fn, body, cls in equiv.functions(mod.tree, modname):
            if q2 == qual or self.is_helper(q2):
                continue
            for n in ast.walk(fn):
                if (isinstance(n, ast.Name) and n.id == name) or (isinstance(n, ast.Attribute) and n.attr == name):
                    return False
        return True

    def nfunc(self, qual):
        '''the function in NORMAL FORM (sa/normal.py): helpers outside the reference inventory inlined, temporaries folded,
        guards canonical.  For rules that read the shape of a function: the reference and every equivalent rewrite of it
        have the same normal form.'''
        if qual in self._func_cache:
            return self._func_cache[qual]
        from . import normal, equiv
        self.func(qual)     # anchor must exist
        mods = {name: equiv._Mod(ast.parse(m.source)) for name, m in self.modules.items() if name == qual.partition(':')[0]}
        try:
            inv = equiv.inventory()
        except Exception:
            inv = None
        normal.Normalizer(mods, inventory=inv, only={qual}, context=self.modules).run()
        out = None
        for name, m in mods.items():
            for q, fn, body, cls in equiv.functions(m.tree, name):
                if q == qual:
                    out = fn
        if out is None:
            raise AnalysisError('anchor function %s not found' % qual)
        real = self.modules[qual.partition(':')[0]]
        for node in ast.walk(out):
            for child in ast.iter_child_nodes(node):
                child._parent = node
            node._module = real
        out._parent = None
        self._func_cache[qual] = out
        return out

    def cls(self, qual, required=True):
        node = self._lookup(qual, ast.ClassDef)
        if node is None and required:
            raise AnalysisError('anchor class %s not found' % qual)
        return node

    def classes(self, modname):
        return [n for n in self.module(modname).tree.body if isinstance(n, ast.ClassDef)]

    def functions(self, modname):
        return [n for n in self.module(modname).tree.body if isinstance(n, ast.FunctionDef)]

    def methods(self, clsnode):
        '''name -> FunctionDef for methods defined directly in the class (last wins)'''
        out = {}
        for child in clsnode.body:
            if isinstance(child, ast.FunctionDef):
                out[child.name] = child
        return out

    def class_by_name(self, modname, name):
        for c in self.classes(modname):
            if c.name == name:
                return c
        return None

    def mro(self, clsnode):
        '''Linearised bases resolvable inside the same module (single
        inheritance is all this repo uses); unresolved bases are returned as
        strings.'''
        out = [clsnode]
        seen = {clsnode.name}
        cur = clsnode
        while True:
            nxt = None
            for b in cur.bases:
                bname = b.id if isinstance(b, ast.Name) else None
                if bname and bname not in seen:
                    cand = self.class_by_name(cur._module.name, bname)
                    if cand is not None:
                        nxt = cand
                        break
            if nxt is None:
                break
            out.append(nxt)
            seen.add(nxt.name)
            cur = nxt
        return out

    def base_names(self, clsnode):
        names = []
        for b in clsnode.bases:
            names.append(dotted(b) or ast.unparse(b))
        return names

    def all_methods(self, clsnode):
        '''name -> FunctionDef through the in-module MRO'''
        out = {}
        for c in reversed(self.mro(clsnode)):
            out.update(self.methods(c))
        return out

    def assigns_in_class(self, clsnode):
        '''class-level NAME = <expr> assignments'''
        out = {}
        for child in clsnode.body:
            if isinstance(child, ast.Assign) and len(child.targets) == 1 \
                    and isinstance(child.targets[0], ast.Name):
                out[child.targets[0].id] = child.value
        return out

    def module_constants(self, modname):
        out = {}
        for child in self.module(modname).tree.body:
            if isinstance(child, ast.Assign) and len(child.targets) == 1 \
                    and isinstance(child.targets[0], ast.Name):
                out[child.targets[0].id] = child.value
        return out


# ---------------------------------------------------------------------------
# small AST helpers
# ---------------------------------------------------------------------------

def loc(node):
    m = getattr(node, '_module', None)
    rel = m.relpath if m else '?'
    return '%s:%s' % (rel, getattr(node, 'lineno', '?'))


def qualname(node):
    '''qualified name of the function/class enclosing (or being) node'''
    parts = []
    cur = node
    while cur is not None:
        if isinstance(cur, (ast.FunctionDef, ast.ClassDef, ast.Lambda)):
            parts.append(getattr(cur, 'name', '<lambda>'))
        cur = getattr(cur, '_parent', None)
    m = getattr(node, '_module', None)
    return '%s:%s' % (m.name if m else '?', '.'.join(reversed(parts)))


def norm(node):
    '''position-free structural key of a node'''
    if isinstance(node, list):
        return '[' + ','.join(norm(n) for n in node) + ']'
    d = ast.dump(node, annotate_fields=False, include_attributes=False)
    return d.replace(', Load()', '').replace(', Store()', '').replace(', Del()', '')


def src(node):
    try:
        return ast.unparse(node)
    except Exception:
        return '<%s>' % type(node).__name__


def dotted(node):
    '''a.b.c -> "a.b.c" ; anything else -> None'''
    parts = []
    while isinstance(node, ast.Attribute):
        parts.append(node.attr)
        node = node.value
    if isinstance(node, ast.Name):
        parts.append(node.id)
        return '.'.join(reversed(parts))
    return None


def call_name(call):
    '''name of the called thing: f(...) -> "f", x.y.f(...) -> "x.y.f"'''
    if not isinstance(call, ast.Call):
        return None
    return dotted(call.func)


def call_attr(call):
    '''last attribute / function name of a call'''
    if not isinstance(call, ast.Call):
        return None
    if isinstance(call.func, ast.Attribute):
        return call.func.attr
    if isinstance(call.func, ast.Name):
        return call.func.id
    return None


def walk_local(node, include_self=True):
    '''ast.walk that does not descend into nested defs / lambdas / classes'''
    stack = [node]
    first = True
    while stack:
        n = stack.pop()
        if not first and isinstance(n, (ast.FunctionDef, ast.AsyncFunctionDef,
                                        ast.Lambda, ast.ClassDef)):
            continue
        if include_self or not first:
            yield n
        first = False
        stack.extend(reversed(list(ast.iter_child_nodes(n))))


def walk_all(node):
    return ast.walk(node)


def const_str(node):
    if isinstance(node, ast.Constant) and isinstance(node.value, str):
        return node.value
    return None


def docstring(fn):
    if fn.body and isinstance(fn.body[0], ast.Expr):
        s = const_str(fn.body[0].value)
        if s is not None:
            return s
    return None


def body_without_doc(fn):
    if docstring(fn) is not None:
        return fn.body[1:]
    return fn.body


def literal(node):
    try:
        return ast.literal_eval(node)
    except Exception:
        raise AnalysisError('%s: expected a literal, found %s' % (loc(node), src(node)))


def enclosing_function(node):
    cur = getattr(node, '_parent', None)
    while cur is not None:
        if isinstance(cur, (ast.FunctionDef, ast.Lambda)):
            return cur
        cur = getattr(cur, '_parent', None)
    return None


def enclosing_stmt(node):
    cur = node
    while cur is not None and not isinstance(cur, ast.stmt):
        cur = getattr(cur, '_parent', None)
    return cur


def param_names(fn, skip_self=True):
    names = [a.arg for a in fn.args.posonlyargs + fn.args.args]
    if skip_self and names and names[0] in ('self', 'cls'):
        names = names[1:]
    return names


def kwarg(call, name):
    for kw in call.keywords:
        if kw.arg == name:
            return kw.value
    return None


def bind_call(call, fn, skip_self=True):
    '''map parameter name -> argument expr for a call of fn (positional +
    keyword); *args / **kwargs make the binding unknown -> AnalysisError'''
    names = param_names(fn, skip_self)
    out = {}
    for i, a in enumerate(call.args):
        if isinstance(a, ast.Starred):
            raise AnalysisError('%s: starred argument in call %s' % (loc(call), src(call)))
        if i >= len(names):
            raise AnalysisError('%s: too many positional arguments in %s' % (loc(call), src(call)))
        out[names[i]] = a
    for kw in call.keywords:
        if kw.arg is None:
            raise AnalysisError('%s: **kwargs in call %s' % (loc(call), src(call)))
        out[kw.arg] = kw.value
    return out
