'''
Engine `schema`: model of the ooaofooa schema read from the three SQL strings of bridgepoint/schema.py with an
independent small reader (not xtuml.load), plus the navigation / relate semantics of the platform (derived by
rules/common.AssocModel from MetaModel.define_association).
'''
import ast
import re

from .src import AnalysisError

_ROP = re.compile(r"CREATE\s+ROP\s+REF_ID\s+R(\d+)\s+FROM\s+(\w+)\s+(\w+)\s*\(([^)]*)\)(?:\s+PHRASE\s+'([^']*)')?"
                  r"\s+TO\s+(\w+)\s+(\w+)\s*\(([^)]*)\)(?:\s+PHRASE\s+'([^']*)')?\s*;")
_TABLE = re.compile(r"CREATE\s+TABLE\s+(\w+)\s*\(([^;]*?)\)\s*;", re.S)
_INDEX = re.compile(r"CREATE\s+UNIQUE\s+INDEX\s+(\w+)\s+ON\s+(\w+)\s*\(([^)]*)\)\s*;")


class Rop(object):
    def __init__(self, rel, sc, sk, skeys, sphr, tc, tk, tkeys, tphr):
        self.rel = rel
        self.src_card, self.src_kind, self.src_keys, self.src_phrase = sc, sk, skeys, sphr or ''
        self.tgt_card, self.tgt_kind, self.tgt_keys, self.tgt_phrase = tc, tk, tkeys, tphr or ''

    @property
    def reflexive(self):
        return self.src_kind == self.tgt_kind

    def __repr__(self):
        return 'R%d %s(%s)%s -> %s(%s)%s' % (self.rel, self.src_kind, ','.join(self.src_keys),
                                              "'%s'" % self.src_phrase if self.src_phrase else '',
                                              self.tgt_kind, ','.join(self.tgt_keys),
                                              "'%s'" % self.tgt_phrase if self.tgt_phrase else '')


class Schema(object):
    def __init__(self, repo):
        consts = repo.module_constants('bridgepoint.schema')
        for need in ('classes', 'associations', 'indices'):
            if need not in consts:
                raise AnalysisError('bridgepoint/schema.py has no `%s` string' % need)
        classes = ast.literal_eval(consts['classes'])
        assocs = ast.literal_eval(consts['associations'])
        indices = ast.literal_eval(consts['indices'])
        self.kinds = {}
        for m in _TABLE.finditer(classes):
            attrs = []
            for part in m.group(2).split(','):
                bits = part.split()
                if len(bits) == 2:
                    attrs.append((bits[0], bits[1]))
            self.kinds[m.group(1)] = attrs
        self.rops = []
        for m in _ROP.finditer(assocs):
            keys = lambda s: [k.strip() for k in s.split(',') if k.strip()]
            self.rops.append(Rop(int(m.group(1)), m.group(2), m.group(3), keys(m.group(4)), m.group(5),
                                 m.group(6), m.group(7), keys(m.group(8)), m.group(9)))
        n_stmt = assocs.count('CREATE ROP')
        if len(self.rops) != n_stmt:
            raise AnalysisError('schema reader understood %d of %d ROP statements' % (len(self.rops), n_stmt))
        if len(self.kinds) != classes.count('CREATE TABLE'):
            raise AnalysisError('schema reader understood %d of %d CREATE TABLE statements'
                                % (len(self.kinds), classes.count('CREATE TABLE')))
        self.indices = {}
        for m in _INDEX.finditer(indices):
            self.indices.setdefault(m.group(2), {})[m.group(1)] = [k.strip() for k in m.group(3).split(',')]
        self.by_rel = {}
        for r in self.rops:
            self.by_rel.setdefault(r.rel, []).append(r)
        self._ukinds = {k.upper(): k for k in self.kinds}

    def kind(self, name):
        return self._ukinds.get(name.upper())

    def attrs(self, kind):
        return [a for a, _ in self.kinds.get(kind, [])]

    # -- platform semantics ---------------------------------------------------------
    def nav(self, from_kind, to_kind, rel, phrase=''):
        '''is  one(<from_kind>).<to_kind>[rel, phrase]  a valid navigation?  returns a list of
        ("direct", rop, direction) / ("assoc", rop1, rop2) possibilities; direction "to-referred" means the
        navigation leads from the referring (FROM/source) instance to the referred one'''
        out = []
        to_kind = self.kind(to_kind) or to_kind
        for r in self.by_rel.get(rel, []):
            # target_link: from SRC to TGT, phrase = source phrase
            if r.src_kind == from_kind and r.tgt_kind == to_kind and r.src_phrase == phrase:
                out.append(('direct', r, 'to-referred'))
            # source_link: from TGT to SRC, phrase = target phrase
            if r.tgt_kind == from_kind and r.src_kind == to_kind and r.tgt_phrase == phrase:
                out.append(('direct', r, 'to-referring'))
        if not out:
            # two hops through an association class: from_kind -> C -> to_kind
            for r1 in self.by_rel.get(rel, []):
                if r1.tgt_kind == from_kind and r1.tgt_phrase == phrase:
                    c = r1.src_kind
                    for r2 in self.by_rel.get(rel, []):
                        if r2.src_kind == c and r2.tgt_kind == to_kind and r2.src_phrase == phrase and r2 is not r1:
                            out.append(('assoc', r1, r2))
        return out

    def relate(self, kind_a, kind_b, rel, phrase=''):
        '''possibilities for relate(a, b, rel, phrase): list of (rop, "a" | "b") naming the referring operand'''
        out = []
        for r in self.by_rel.get(rel, []):
            # _find_link tests source_link first: from TGT(kind a) to SRC(kind b), phrase = target phrase
            if r.tgt_kind == kind_a and r.src_kind == kind_b and r.tgt_phrase == phrase:
                out.append((r, 'b'))
            elif r.src_kind == kind_a and r.tgt_kind == kind_b and r.src_phrase == phrase:
                out.append((r, 'a'))
        return out

    def subkinds(self, super_kind, rel):
        '''kinds referring to super_kind over rel (subtype ends of a sub/super association)'''
        return sorted(set(r.src_kind for r in self.by_rel.get(rel, []) if r.tgt_kind == super_kind))

    def referring_assocs(self, kind):
        '''associations formalised in `kind` (it holds the referential attributes)'''
        return [r for r in self.rops if r.src_kind == kind]

    def succession(self, rel):
        '''for a reflexive 1C:1C association with a Previous*/Next* key: dict with the phrase that leads from an
        element to its successor / predecessor and which element is the referring one'''
        rs = self.by_rel.get(rel, [])
        if len(rs) != 1 or not rs[0].reflexive or not rs[0].src_phrase or not rs[0].tgt_phrase:
            return None
        r = rs[0]
        key = r.src_keys[0]
        if key.startswith('Previous') or re.match(r'^P[A-Z]\w*_ID$', key):
            referring = 'later'
        elif key.startswith('Next'):
            referring = 'earlier'
        else:
            return None
        # [rel, FROM-phrase] leads referring -> referred ; [rel, TO-phrase] leads referred -> referring
        if referring == 'later':
            to_succ, to_pred = r.tgt_phrase, r.src_phrase
        else:
            to_succ, to_pred = r.src_phrase, r.tgt_phrase
        return {'rop': r, 'referring': referring, 'to_successor': to_succ, 'to_predecessor': to_pred,
                'from_phrase': r.src_phrase, 'to_phrase': r.tgt_phrase, 'key': key, 'kind': r.src_kind}


_cache = {}


def schema(repo):
    if id(repo) not in _cache:
        _cache[id(repo)] = Schema(repo)
    return _cache[id(repo)]
