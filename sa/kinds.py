'''
Engine `kinds`: flow-insensitive inference of xtUML *kinds* (ooaofooa class key letters) for expressions in the
model-walking modules (prebuild.py, sourcegen.py, ooaofooa.py, gen_xsd_schema.py) and type-checking of navigation
chains / relate calls against the schema.

A kind set is a frozenset of key letters; None means unknown.  Following the precision policy a step is reported
only when NO possible kind admits it.
'''
import ast

from .src import AnalysisError, loc, src, dotted, call_attr, param_names, walk_local
from . import pm

NAV_FUNCS = {'one', 'any', 'many', 'nav_one', 'nav_any', 'nav_many', 'navigate_one', 'navigate_any', 'navigate_many'}
SELECT_ONE = {'any', 'one', 'select_any', 'select_one'}
SELECT_MANY = {'many', 'select_many'}


def rel_of(node):
    '''slice of K[...] -> (rel int, phrase) or None'''
    if isinstance(node, ast.Constant):
        if isinstance(node.value, int):
            return node.value, ''
        if isinstance(node.value, str) and node.value[:1] == 'R' and node.value[1:].isdigit():
            return int(node.value[1:]), ''
    if isinstance(node, ast.Tuple) and len(node.elts) == 2 and all(isinstance(e, ast.Constant) for e in node.elts):
        r = rel_of(node.elts[0])
        if r and isinstance(node.elts[1].value, str):
            return r[0], node.elts[1].value
    return None


class Step(object):
    def __init__(self, node, kind, rel, phrase):
        self.node, self.kind, self.rel, self.phrase = node, kind, rel, phrase


def chain_of(expr):
    '''  one(x).A[1].B[2,'p'](filter)  ->  (root call node, root arg, [Step...], final call or None)
    returns None if expr is not a navigation chain '''
    call = None
    cur = expr
    if isinstance(cur, ast.Call) and isinstance(cur.func, ast.Subscript):
        call = cur
        cur = cur.func
    steps = []
    while isinstance(cur, ast.Subscript) and isinstance(cur.value, ast.Attribute):
        r = rel_of(cur.slice)
        if r is None:
            return None
        steps.append(Step(cur, cur.value.attr, r[0], r[1]))
        cur = cur.value.value
    if not steps:
        return None
    if isinstance(cur, ast.Call) and isinstance(cur.func, ast.Name) and cur.func.id in NAV_FUNCS and len(cur.args) == 1:
        steps.reverse()
        return cur, cur.args[0], steps, call
    return None


class Issue(object):
    def __init__(self, node, message, key):
        self.node, self.message, self.key = node, message, key


class KindInfer(object):
    def __init__(self, repo, schema, modname, node_field_kinds=None, subtype_name='subtype'):
        self.repo = repo
        self.schema = schema
        self.modname = modname
        self.mod = repo.module(modname)
        self.node_field_kinds = node_field_kinds or {}     # 'expression' -> {'V_VAL'} for self.accept(node.<field>)
        self.subtype_name = subtype_name
        self.method_returns = {}     # (class name or None, func name) -> kinds
        self.attr_kinds = {}         # (class name, attr) -> kinds   for self.<attr>
        self.kw_param_kinds = {}     # (class, kw name) -> kinds passed under that keyword to self.accept(...)
        self.all_kinds = set(schema.kinds)
        self._envs = {}
        self.ctor_param_kinds = {}   # (class name, param) -> kinds, filled by rules from a dispatch table
        self.handler_param_is_kind = False
        self.name_convention = False
        self._solve()

    # ------------------------------------------------------------------
    def _functions(self):
        # helpers that the equivalence step inlined into all their callers are not read a second time
        for n in self.mod.tree.body:
            if isinstance(n, ast.FunctionDef):
                if not self.repo.absorbed('%s:%s' % (self.modname, n.name)):
                    yield None, n
            elif isinstance(n, ast.ClassDef):
                for m in n.body:
                    if isinstance(m, ast.FunctionDef) and not self.repo.absorbed('%s:%s.%s' % (self.modname, n.name, m.name)):
                        yield n, m

    def _class_family(self, cls):
        '''class plus in-module bases'''
        return [c.name for c in self.repo.mro(cls)] if cls is not None else [None]

    def _lookup_method(self, cls, name):
        for cname in self._class_family(cls):
            k = self.method_returns.get((cname, name))
            if k is not None:
                return k
        return self.method_returns.get((None, name))

    def _lookup_attr(self, cls, attr):
        out = None
        for cname in ([c.name for c in self.repo.classes(self.modname)] if cls is None else
                      self._class_family(cls) + [c.name for c in self.repo.classes(self.modname)
                                                 if cls.name in [b.name for b in self.repo.mro(c)]]):
            k = self.attr_kinds.get((cname, attr))
            if k:
                out = (out or frozenset()) | k
        return out

    def _solve(self):
        for _ in range(6):
            changed = False
            for cls, fn in self._functions():
                env = self.func_env(fn, cls, fresh=True)
                rk = self._return_kinds(fn, env, cls)
                key = (cls.name if cls else None, fn.name)
                if rk is not None and self.method_returns.get(key) != rk:
                    self.method_returns[key] = rk
                    changed = True
                for n in ast.walk(fn):
                    if isinstance(n, ast.Assign) and len(n.targets) == 1:
                        t = n.targets[0]
                        if isinstance(t, ast.Attribute) and isinstance(t.value, ast.Name) and t.value.id == 'self' and cls is not None:
                            k = self.expr_kinds(n.value, env, cls)
                            if k:
                                old = self.attr_kinds.get((cls.name, t.attr), frozenset())
                                if not k <= old:
                                    self.attr_kinds[(cls.name, t.attr)] = old | k
                                    changed = True
                    if isinstance(n, ast.Call) and call_attr(n) == 'accept' and cls is not None:
                        for kw in n.keywords:
                            k = self.expr_kinds(kw.value, env, cls)
                            if k:
                                for cname in self._class_family(cls):
                                    old = self.kw_param_kinds.get((cname, kw.arg), frozenset())
                                    if not k <= old:
                                        self.kw_param_kinds[(cname, kw.arg)] = old | k
                                        changed = True
            self._envs = {}
            if not changed:
                break

    def _return_kinds(self, fn, env, cls):
        out = None
        is_gen = False
        for n in walk_local(fn):
            if isinstance(n, ast.Return) and n.value is not None:
                k = self.expr_kinds(n.value, env, cls)
                if k:
                    out = (out or frozenset()) | k
            if isinstance(n, ast.Yield) and n.value is not None:
                k = self.expr_kinds(n.value, env, cls)
                if k:
                    out = (out or frozenset()) | k
        return out

    # ------------------------------------------------------------------
    def func_env(self, fn, cls=None, fresh=False):
        key = id(fn)
        if not fresh and key in self._envs:
            return self._envs[key]
        env = {}
        # parameters known from keyword passing
        if cls is not None:
            for p in param_names(fn):
                for cname in self._class_family(cls):
                    k = self.kw_param_kinds.get((cname, p))
                    if k:
                        env[p] = env.get(p, frozenset()) | k
                k = self.ctor_param_kinds.get((cls.name, p))
                if k and fn.name == '__init__':
                    env[p] = env.get(p, frozenset()) | k
        # walker handlers over model instances: accept_<KIND>(self, inst)
        if self.handler_param_is_kind and fn.name.startswith('accept_') and self.schema.kind(fn.name[7:]):
            ps = param_names(fn)
            if ps:
                env[ps[0]] = frozenset([self.schema.kind(fn.name[7:])])
        # repository-wide naming convention: a parameter named like a lower-cased key letter holds that kind
        if self.name_convention:
            polymorphic = set()
            for n in ast.walk(fn):
                # `type(x).__name__ != 'K'` / `x.__class__.__name__ ...`: the function itself says the kind of x varies
                if isinstance(n, ast.Attribute) and n.attr == '__name__':
                    v = n.value
                    if isinstance(v, ast.Call) and isinstance(v.func, ast.Name) and v.func.id == 'type' and v.args \
                            and isinstance(v.args[0], ast.Name):
                        polymorphic.add(v.args[0].id)
                    if isinstance(v, ast.Attribute) and v.attr == '__class__' and isinstance(v.value, ast.Name):
                        polymorphic.add(v.value.id)
            for p_ in param_names(fn, skip_self=False):
                if p_ in polymorphic:
                    continue
                if p_ not in env and p_ == p_.lower() and self.schema.kind(p_) and '_' in p_:
                    env[p_] = frozenset([self.schema.kind(p_)])
        # a parameter whose incoming kind is unknown stays unknown, whatever is assigned to it later
        opaque = set(p for p in param_names(fn, skip_self=False) if p not in env)
        if fn.args.vararg:
            opaque.add(fn.args.vararg.arg)
        if fn.args.kwarg:
            opaque.add(fn.args.kwarg.arg)
        for _ in range(4):
            changed = False
            for n in ast.walk(fn):
                targets = []
                if isinstance(n, ast.Assign):
                    for t in n.targets:
                        if isinstance(t, ast.Name):
                            targets.append((t.id, n.value))
                        elif isinstance(t, ast.Tuple) and isinstance(n.value, ast.Tuple) and len(t.elts) == len(n.value.elts):
                            for a, b in zip(t.elts, n.value.elts):
                                if isinstance(a, ast.Name):
                                    targets.append((a.id, b))
                elif isinstance(n, ast.For) and isinstance(n.target, ast.Name):
                    targets.append((n.target.id, n.iter))
                elif isinstance(n, ast.comprehension) and isinstance(n.target, ast.Name):
                    targets.append((n.target.id, n.iter))
                for name, value in targets:
                    if name in opaque:
                        continue
                    k = self.expr_kinds(value, env, cls)
                    if k:
                        old = env.get(name, frozenset())
                        if not k <= old:
                            env[name] = old | k
                            changed = True
            # lambda parameters: kind of the navigation / selection they filter
            for n in ast.walk(fn):
                if isinstance(n, ast.Call):
                    rk = self._filter_target_kinds(n, env, cls)
                    if rk:
                        for a in n.args:
                            lam = a
                            if isinstance(a, ast.Name):
                                lam = self._lambda_bound_to(fn, a.id)
                            if isinstance(lam, ast.Lambda) and lam.args.args:
                                pname = '<lambda %d>.%s' % (lam.lineno, lam.args.args[0].arg)
                                old = env.get(pname, frozenset())
                                if not rk <= old:
                                    env[pname] = old | rk
                                    changed = True
            if not changed:
                break
        self._envs[key] = env
        return env

    def _lambda_bound_to(self, fn, name):
        for n in ast.walk(fn):
            if isinstance(n, ast.Assign) and len(n.targets) == 1 and isinstance(n.targets[0], ast.Name) \
                    and n.targets[0].id == name and isinstance(n.value, ast.Lambda):
                return n.value
        return None

    def _filter_target_kinds(self, call, env, cls):
        '''kinds of the instances that the filter arguments of this call receive'''
        ch = chain_of(call)
        if ch is not None and ch[3] is call:
            return frozenset([self.schema.kind(ch[2][-1].kind) or ch[2][-1].kind])
        name = call_attr(call)
        if name in SELECT_ONE | SELECT_MANY and call.args and isinstance(call.args[0], ast.Constant) \
                and isinstance(call.args[0].value, str):
            return frozenset([self.schema.kind(call.args[0].value) or call.args[0].value])
        return None

    def lookup_name(self, node, env):
        '''kinds of a Name, taking lambda parameters into account'''
        cur = node
        while cur is not None:
            cur = getattr(cur, '_parent', None)
            if isinstance(cur, ast.Lambda) and any(a.arg == node.id for a in cur.args.args):
                return env.get('<lambda %d>.%s' % (cur.lineno, node.id))
            if isinstance(cur, ast.FunctionDef):
                break
        return env.get(node.id)

    def expr_kinds(self, e, env, cls=None):
        if e is None:
            return None
        if isinstance(e, ast.Name):
            return self.lookup_name(e, env)
        if isinstance(e, ast.BoolOp):
            out = None
            for v in e.values:
                k = self.expr_kinds(v, env, cls)
                if k:
                    out = (out or frozenset()) | k
            return out
        if isinstance(e, ast.IfExp):
            a, b = self.expr_kinds(e.body, env, cls), self.expr_kinds(e.orelse, env, cls)
            if a or b:
                return (a or frozenset()) | (b or frozenset())
            return None
        if isinstance(e, ast.Attribute) and isinstance(e.value, ast.Name) and e.value.id == 'self':
            return self._lookup_attr(cls, e.attr)
        if isinstance(e, ast.Call):
            ch = chain_of(e)
            if ch is not None:
                last = ch[2][-1]
                return frozenset([self.schema.kind(last.kind) or last.kind])
            name = call_attr(e)
            if name == 'new' and e.args and isinstance(e.args[0], ast.Constant) and isinstance(e.args[0].value, str):
                return frozenset([self.schema.kind(e.args[0].value) or e.args[0].value])
            if name in SELECT_ONE | SELECT_MANY and e.args and isinstance(e.args[0], ast.Constant) \
                    and isinstance(e.args[0].value, str):
                return frozenset([self.schema.kind(e.args[0].value) or e.args[0].value])
            if name == self.subtype_name or name == 'navigate_subtype':
                if len(e.args) == 2:
                    sup = self.expr_kinds(e.args[0], env, cls)
                    rel = rel_of(e.args[1])
                    if sup and rel:
                        out = set()
                        for s in sup:
                            out |= set(self.schema.subkinds(s, rel[0]))
                        return frozenset(out) if out else None
            if name == 'accept' and e.args:
                if callable(self.node_field_kinds):
                    fn = e
                    while fn is not None and not isinstance(fn, ast.FunctionDef):
                        fn = getattr(fn, '_parent', None)
                    return self.node_field_kinds(self, fn, e.args[0], env, cls)
                return None
            if name in ('sorted', 'list', 'reversed', 'filter', 'sort_reflexive') and e.args:
                return self.expr_kinds(e.args[0] if name != 'filter' else e.args[-1], env, cls)
            if isinstance(e.func, ast.Attribute) and isinstance(e.func.value, ast.Name) and e.func.value.id == 'self':
                return self._lookup_method(cls, e.func.attr)
            if isinstance(e.func, ast.Attribute) and isinstance(e.func.value, ast.Name) and e.func.attr in \
                    [f.name for _, f in self._functions()]:
                # ActionPrebuilder.find_symbol(self, ...) style explicit base call
                for c in self.repo.classes(self.modname):
                    if c.name == e.func.value.id:
                        return self._lookup_method(c, e.func.attr)
            if isinstance(e.func, ast.Name):
                return self.method_returns.get((None, e.func.id))
        return None

    # ------------------------------------------------------------------
    def check_chain(self, expr, env, cls=None):
        '''type-check one navigation chain; returns (issues, n_steps, result kinds)'''
        ch = chain_of(expr)
        issues = []
        if ch is None:
            return issues, 0, None
        rootcall, rootarg, steps, call = ch
        cur = self.expr_kinds(rootarg, env, cls)
        n = 0
        for st in steps:
            n += 1
            tk = self.schema.kind(st.kind)
            if tk is None:
                issues.append(Issue(st.node, 'navigation to `%s`, which is not a class of the ooaofooa schema' % st.kind,
                                    'unknown-kind ' + st.kind))
                cur = None
                continue
            if st.rel not in self.schema.by_rel:
                issues.append(Issue(st.node, 'navigation across R%d, which the ooaofooa schema does not define' % st.rel,
                                    'unknown-rel R%d' % st.rel))
                cur = frozenset([tk])
                continue
            cands = cur if cur else self.all_kinds
            valid = [k for k in cands if self.schema.nav(k, tk, st.rel, st.phrase)]
            if not valid:
                if cur:
                    issues.append(Issue(st.node, 'no link %s -> %s[R%d%s] exists in the schema (start kind %s)'
                                        % ('/'.join(sorted(cur)), tk, st.rel, ", '%s'" % st.phrase if st.phrase else '',
                                           '/'.join(sorted(cur))), 'bad-step %s[R%d,%s]' % (tk, st.rel, st.phrase)))
                else:
                    issues.append(Issue(st.node, 'no class of the schema has a link to %s[R%d%s]'
                                        % (tk, st.rel, ", '%s'" % st.phrase if st.phrase else ''),
                                        'bad-step %s[R%d,%s]' % (tk, st.rel, st.phrase)))
            cur = frozenset([tk])
        return issues, n, cur

    def check_relate(self, call, env, cls=None):
        '''relate(a, b, R[, phrase]) / unrelate(...)  -> (issues, decided?)'''
        if len(call.args) < 3:
            return [], False
        r = rel_of(call.args[2])
        if r is None:
            return [], False
        rel = r[0]
        phrase = ''
        if len(call.args) > 3:
            if isinstance(call.args[3], ast.Constant) and isinstance(call.args[3].value, str):
                phrase = call.args[3].value
            else:
                return [], False
        if rel not in self.schema.by_rel:
            return [Issue(call, 'relate across R%d, which the ooaofooa schema does not define' % rel, 'unknown-rel R%d' % rel)], True
        ka = self.expr_kinds(call.args[0], env, cls)
        kb = self.expr_kinds(call.args[1], env, cls)
        if not ka or not kb:
            # at least: some pair of kinds admits it with the known side
            known = ka or kb
            ok = False
            for rop in self.schema.by_rel[rel]:
                ends = {rop.src_kind, rop.tgt_kind}
                if (not known or (known & ends)) and phrase in ('', rop.src_phrase, rop.tgt_phrase):
                    if phrase == '' and rop.reflexive:
                        continue
                    ok = True
            if not ok:
                return [Issue(call, 'no association R%d%s involves %s' % (rel, " with phrase '%s'" % phrase if phrase else '',
                                                                          '/'.join(sorted(known)) if known else 'any class'),
                              'bad-relate R%d' % rel)], True
            return [], False
        for a in ka:
            for b in kb:
                if self.schema.relate(a, b, rel, phrase):
                    return [], True
        return [Issue(call, 'relate(%s:%s, %s:%s, R%d%s): the schema has no such link (R%d connects %s)'
                      % (src(call.args[0]), '/'.join(sorted(ka)), src(call.args[1]), '/'.join(sorted(kb)), rel,
                         ", '%s'" % phrase if phrase else '', rel,
                         '; '.join('%s-%s' % (x.src_kind, x.tgt_kind) for x in self.schema.by_rel[rel][:4])),
                      'bad-relate R%d %s %s' % (rel, src(call.args[0]), src(call.args[1])))], True
