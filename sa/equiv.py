'''
Engine `equiv`: proves, function by function, that the analysed tree is a behaviour-preserving rewrite of the reference
tree, and lets the rules look at the reference spelling of every function for which the proof succeeds.

For every function of the reference inventory (sa/reference.json: qualified name -> digest of the source, normal form,
source) whose source text differs from the reference:

    1. the function of the analysed tree is brought into normal form (sa/normal.py: newly introduced helpers inlined,
       temporaries folded, control flow canonical, locals renamed in order of appearance);
    2. if that normal form is identical to the normal form of the reference function, the two are equivalent (each pass
       of the normaliser rewrites code into equivalent code), so the verdict of every rule on the reference spelling is
       the verdict for the analysed spelling: the reference spelling is what the rules then read;
    3. otherwise the function really changed (or changed beyond what the normaliser can see through) and the rules read
       the analysed source itself.

Nothing is executed.  The step never hides a behavioural change (a change of behaviour changes the normal form) and never
creates a report; it only removes the dependence of the rules on spelling.
'''
import ast
import hashlib
import json
import os
import textwrap

from . import normal

HERE = os.path.dirname(os.path.abspath(__file__))
REFERENCE = os.path.join(HERE, 'reference.json')
PLY_PREFIXES = ('t_', 'p_')


def functions(tree, modname):
    for n in tree.body:
        if isinstance(n, ast.FunctionDef):
            yield '%s:%s' % (modname, n.name), n, tree.body, None
        elif isinstance(n, ast.ClassDef):
            for m in n.body:
                if isinstance(m, ast.FunctionDef):
                    yield '%s:%s.%s' % (modname, n.name, m.name), m, n.body, n


def segment(source_lines, fn):
    first = min([fn.lineno] + [d.lineno for d in fn.decorator_list])
    return textwrap.dedent(''.join(source_lines[first - 1:fn.end_lineno]))


def digest(text):
    # layout and comments do not matter: digest of the parsed function
    try:
        return hashlib.sha256(ast.dump(ast.parse(text)).encode()).hexdigest()[:20]
    except SyntaxError:
        return hashlib.sha256(text.encode()).hexdigest()[:20]


def alpha(fn):
    '''text of fn with its local names replaced by v0, v1, .. in order of appearance (docstring dropped unless it is the
    ply regex / grammar of the function)'''
    fn = normal.clone(fn)
    if not fn.name.startswith(PLY_PREFIXES):
        if fn.body and isinstance(fn.body[0], ast.Expr) and isinstance(fn.body[0].value, ast.Constant) and isinstance(fn.body[0].value.value, str):
            fn.body = fn.body[1:] or [ast.Pass()]
    for n in ast.walk(fn):
        if isinstance(n, (ast.FunctionDef, ast.AsyncFunctionDef)) and n is not fn:
            if n.body and isinstance(n.body[0], ast.Expr) and isinstance(n.body[0].value, ast.Constant) and isinstance(n.body[0].value.value, str):
                n.body = n.body[1:] or [ast.Pass()]
    a = fn.args
    params = {x.arg for x in a.posonlyargs + a.args + a.kwonlyargs}
    if a.vararg:
        params.add(a.vararg.arg)
    if a.kwarg:
        params.add(a.kwarg.arg)
    keywords = {k.arg for n in ast.walk(fn) if isinstance(n, ast.Call) for k in n.keywords if k.arg}
    declared = set()
    for n in ast.walk(fn):
        if isinstance(n, (ast.Global, ast.Nonlocal)):
            declared |= set(n.names)
    local = set()
    for n in ast.walk(fn):
        if isinstance(n, ast.Name) and isinstance(n.ctx, (ast.Store, ast.Del)):
            local.add(n.id)
        elif isinstance(n, ast.arg) and n.arg not in params:
            if n.arg not in keywords:
                local.add(n.arg)
        elif isinstance(n, (ast.FunctionDef, ast.AsyncFunctionDef)) and n is not fn:
            local.add(n.name)
        elif isinstance(n, ast.ExceptHandler) and n.name:
            local.add(n.name)
    local -= params
    local -= declared
    mapping = {}
    for n in normal._source_order(fn):
        nm = None
        if isinstance(n, ast.Name):
            nm = n.id
        elif isinstance(n, ast.arg):
            nm = n.arg
        elif isinstance(n, (ast.FunctionDef, ast.AsyncFunctionDef)) and n is not fn:
            nm = n.name
        elif isinstance(n, ast.ExceptHandler):
            nm = n.name
        if nm in local and nm not in mapping:
            mapping[nm] = 'v%d' % len(mapping)
    for n in ast.walk(fn):
        if isinstance(n, ast.Name) and n.id in mapping:
            n.id = mapping[n.id]
        elif isinstance(n, ast.arg) and n.arg in mapping:
            n.arg = mapping[n.arg]
        elif isinstance(n, (ast.FunctionDef, ast.AsyncFunctionDef)) and n is not fn and n.name in mapping:
            n.name = mapping[n.name]
        elif isinstance(n, ast.ExceptHandler) and n.name in mapping:
            n.name = mapping[n.name]
    return ast.unparse(fn)


class _Mod(object):
    def __init__(self, tree):
        self.tree = tree


def normal_forms(sources, only=None, inventory=None):
    '''sources: module name -> source text.  Returns qualified name -> alpha normal form for the wanted functions.'''
    mods = {name: _Mod(ast.parse(src)) for name, src in sources.items()}
    nz = normal.Normalizer(mods, inventory=inventory, only=only)
    nz.run()
    out = {}
    for name, m in mods.items():
        for q, fn, body, cls in functions(m.tree, name):
            if only is None or q in only:
                out[q] = alpha(fn)
    return out


def build_reference(root):
    '''(tool side) digest / normal form / source of every function of the reference tree'''
    from .src import PACKAGES, GENERATED
    sources = {}
    for pkg in PACKAGES:
        d = os.path.join(root, pkg)
        for fn in sorted(os.listdir(d)):
            if fn.endswith('.py') and fn not in GENERATED:
                name = pkg if fn == '__init__.py' else '%s.%s' % (pkg, fn[:-3])
                sources[name] = open(os.path.join(d, fn), encoding='utf-8').read()
    inventory = set()
    entries = {}
    for name, src in sources.items():
        tree = ast.parse(src)
        lines = src.splitlines(True)
        for q, fn, body, cls in functions(tree, name):
            inventory.add(q)
            seg = segment(lines, fn)
            entries[q] = {'digest': digest(seg), 'source': seg}
    forms = normal_forms(sources, only=None, inventory=inventory)
    for q in entries:
        entries[q]['form'] = hashlib.sha256(forms[q].encode()).hexdigest()[:24]
    return {'functions': entries}


def _signatures(repo):
    '''callable name -> parameter names, for names with one signature in the analysed tree'''
    try:
        return repo.signatures()
    except Exception:
        return {}


def _local_order(fn):
    a = fn.args
    params = {x.arg for x in a.posonlyargs + a.args + a.kwonlyargs} | ({a.vararg.arg} if a.vararg else set()) | ({a.kwarg.arg} if a.kwarg else set())
    order = []
    for n in normal._source_order(fn):
        if isinstance(n, ast.Name) and isinstance(n.ctx, ast.Store) and n.id not in params and n.id not in order:
            order.append(n.id)
    return order


def rename_back(fn, ref_fn):
    new_order, ref_order = _local_order(fn), _local_order(ref_fn)
    gone = [n for n in ref_order if n not in new_order]
    fresh = [n for n in new_order if n not in ref_order]
    if not gone or len(gone) != len(fresh):
        return
    used = {n.id for n in ast.walk(fn) if isinstance(n, ast.Name)} | {a.arg for a in ast.walk(fn) if isinstance(a, ast.arg)}
    if any(g in used for g in gone):
        return
    mapping = dict(zip(fresh, gone))
    # only the function's own variables are renamed: an occurrence inside a nested lambda / def that has a parameter of the
    # same name belongs to that inner scope
    todo = []
    for old_, new_ in mapping.items():
        for n in normal.scoped_names(fn, old_):
            todo.append((n, new_))
    for n, new_ in todo:
        n.id = new_


def restyle_calls(fn, ref_fn, sigs):
    '''calls in a changed function are spelled the way the reference function spells calls of the same callee: an argument the
    reference passes by keyword is passed by keyword, one it passes by position by position (same arguments to the same
    parameters either way).  Only callees whose name denotes one signature in the tree are touched.'''
    def cname(c):
        f = c.func
        if isinstance(f, ast.Attribute) and isinstance(f.value, ast.Name) and ('%s.%s' % (f.value.id, f.attr)) in sigs:
            return '%s.%s' % (f.value.id, f.attr)
        return f.id if isinstance(f, ast.Name) else (f.attr if isinstance(f, ast.Attribute) else None)
    style = {}      # callee -> set of parameters the reference passes by keyword
    seen = set()
    for c in ast.walk(ref_fn):
        if isinstance(c, ast.Call) and cname(c) in sigs and not any(isinstance(a, ast.Starred) for a in c.args) and all(k.arg for k in c.keywords):
            seen.add(cname(c))
            style.setdefault(cname(c), set()).update(k.arg for k in c.keywords)
    for c in ast.walk(fn):
        if not (isinstance(c, ast.Call) and cname(c) in seen):
            continue
        params = sigs[cname(c)]
        if any(isinstance(a, ast.Starred) for a in c.args) or any(k.arg is None for k in c.keywords) or len(c.args) > len(params):
            continue
        given = dict(zip(params, c.args))
        ok = True
        for k in c.keywords:
            if k.arg not in params or k.arg in given:
                ok = False
            given[k.arg] = k.value
        if not ok:
            continue
        kw = style[cname(c)]
        args, kws = [], []
        positional_open = True
        for p_ in params:
            if p_ not in given:
                positional_open = False
                continue
            if p_ in kw or not positional_open:
                kws.append(ast.keyword(arg=p_, value=given[p_]))
                positional_open = False
            else:
                args.append(given[p_])
        c.args, c.keywords = args, kws
    ast.fix_missing_locations(fn)


_INV = None


def inventory():
    global _INV
    if _INV is None:
        _INV = set(json.load(open(REFERENCE))['functions'])
    return _INV


def apply(repo):
    '''substitute the reference spelling for every function proven equivalent; returns the summary for the evidence'''
    summary = {'reference_functions': 0, 'identical': 0, 'proven_equivalent': [], 'changed': [], 'missing': [], 'new': []}
    if not os.path.exists(REFERENCE):
        return summary
    ref = json.load(open(REFERENCE))['functions']
    inventory = set(ref)
    summary['reference_functions'] = len(ref)
    current = {}
    for name, m in repo.modules.items():
        lines = m.source.splitlines(True)
        for q, fn, body, cls in functions(m.tree, name):
            current[q] = (m, fn, body, segment(lines, fn))
    changed = []
    for q, entry in ref.items():
        if q not in current:
            summary['missing'].append(q)
            continue
        if digest(current[q][3]) == entry['digest']:
            summary['identical'] += 1
        else:
            changed.append(q)
    summary['new'] = sorted(q for q in current if q not in ref)
    if not changed:
        return summary
    try:
        forms = normal_forms({name: m.source for name, m in repo.modules.items()}, only=set(changed), inventory=inventory)
    except RecursionError:
        forms = {}
    touched = set()
    for q in changed:
        f = forms.get(q)
        if f is not None and hashlib.sha256(f.encode()).hexdigest()[:24] == ref[q]['form']:
            m, fn, body, seg = current[q]
            new = ast.parse(ref[q]['source']).body[0]
            ast.increment_lineno(new, fn.lineno - new.lineno)
            for k, x in enumerate(body):
                if x is fn:
                    body[k] = new
            touched.add(m.name)
            summary['proven_equivalent'].append(q)
        else:
            summary['changed'].append(q)
    # functions that really differ: what is new relative to the reference spelling (helpers that are not in the inventory,
    # temporaries the reference does not have) is folded away, the rest is read as written
    if summary['changed']:
        try:
            light = {}
            for q in summary['changed']:
                t = ast.parse(ref[q]['source'])
                light[q] = {n.id for n in ast.walk(t) if isinstance(n, ast.Name)} | {a.arg for a in ast.walk(t) if isinstance(a, ast.arg)}
            mods = {name: _Mod(ast.parse(m.source)) for name, m in repo.modules.items()}
            # locals that were only renamed get their reference names back (same number of vanished and new names, paired in
            # order of first appearance)
            for name, m2 in mods.items():
                for q, fn2, body2, cls2 in functions(m2.tree, name):
                    if q in light:
                        rename_back(fn2, ast.parse(ref[q]['source']).body[0])
            nz = normal.Normalizer(mods, inventory=inventory, only=set(summary['changed']), light=light)
            nz.run()
            sigs = _signatures(repo)
            for name, m2 in mods.items():
                for q, fn2, body2, cls2 in functions(m2.tree, name):
                    if q in light:
                        restyle_calls(fn2, ast.parse(ref[q]['source']).body[0], sigs)
                        m, fn, body, seg = current[q]
                        for k, x in enumerate(body):
                            if x is fn:
                                body[k] = fn2
                        touched.add(m.name)
            summary['read_with_new_helpers_and_temporaries_folded'] = sorted(light)
        except RecursionError:
            pass
    for name in touched:
        repo.modules[name].annotate()
    return summary
