'''
Engine `lexer`: regex analysis on the parse tree produced by `re._parser` (the dialect the repository runs on).

  RegexNFA(pattern)          Thompson NFA over a finite partition of the alphabet (epsilon transitions kept)
  .eda()                     exact exponential-ambiguity test (Weber/Seidl product criterion, with epsilon
                             multiplicities): the backtracking matcher has exponentially many ways to match some
                             input family  <=>  two distinct paths q ->* q over the same word
  .can_consume(ch)           some accepted word contains ch
  included(a, b)             L(a) subset of L(b)   (subset construction over the common partition)
  overlap_prefix(a, b)       some word of L(a) is a prefix-match conflict with b (used for token shadowing)

Nothing of the analysed repository is executed; only its regex *strings* are parsed.
'''
import re
try:
    import re._parser as sre_parse
    import re._constants as sre_c
except ImportError:                       # python < 3.11
    import sre_parse
    import sre_constants as sre_c

from .src import AnalysisError

ASCII = [chr(i) for i in range(128)]
EXTRA = ['\x80', '\xa0', '\xe9', '٣', ' ', '€', '中', '\U0001f600', '\U0010ffff']
CANDIDATES = ASCII + EXTRA


def _category(cat, ch):
    if cat == sre_c.CATEGORY_DIGIT:
        return ch.isdigit() and ch.isdecimal()
    if cat == sre_c.CATEGORY_NOT_DIGIT:
        return not (ch.isdigit() and ch.isdecimal())
    if cat == sre_c.CATEGORY_SPACE:
        return ch.isspace() or ch in '\x1c\x1d\x1e\x1f'
    if cat == sre_c.CATEGORY_NOT_SPACE:
        return not (ch.isspace() or ch in '\x1c\x1d\x1e\x1f')
    if cat == sre_c.CATEGORY_WORD:
        return ch.isalnum() or ch == '_'
    if cat == sre_c.CATEGORY_NOT_WORD:
        return not (ch.isalnum() or ch == '_')
    raise AnalysisError('regex category %s not modelled' % cat)


class CharSet(object):
    '''a predicate on characters built from a parse-tree item'''

    def __init__(self, op, arg, flags=0):
        self.op = op
        self.arg = arg
        self.flags = flags

    def contains(self, ch):
        op, arg = self.op, self.arg
        if op == sre_c.LITERAL:
            return ord(ch) == arg
        if op == sre_c.NOT_LITERAL:
            return ord(ch) != arg
        if op == sre_c.ANY:
            return ch != '\n' or bool(self.flags & re.DOTALL)
        if op == sre_c.IN:
            neg = False
            hit = False
            for iop, iarg in arg:
                if iop == sre_c.NEGATE:
                    neg = True
                elif iop == sre_c.LITERAL:
                    hit = hit or ord(ch) == iarg
                elif iop == sre_c.RANGE:
                    hit = hit or iarg[0] <= ord(ch) <= iarg[1]
                elif iop == sre_c.CATEGORY:
                    hit = hit or _category(iarg, ch)
                else:
                    raise AnalysisError('regex class item %s not modelled' % iop)
            return hit != neg
        raise AnalysisError('regex op %s is not a character set' % op)

    def mentioned(self):
        out = []
        if self.op in (sre_c.LITERAL, sre_c.NOT_LITERAL):
            out.append(self.arg)
        elif self.op == sre_c.IN:
            for iop, iarg in self.arg:
                if iop == sre_c.LITERAL:
                    out.append(iarg)
                elif iop == sre_c.RANGE:
                    out.extend([iarg[0], iarg[1]])
        return out


class RegexNFA(object):
    def __init__(self, pattern, flags=0, candidates=None):
        self.pattern = pattern
        try:
            self.tree = sre_parse.parse(pattern, flags)
        except re.error as e:
            raise AnalysisError('regex %r does not parse: %s' % (pattern, e))
        self.flags = flags
        self.n = 0
        self.eps = {}       # state -> [state]   (ordered: priority order of the backtracking matcher)
        self.trans = {}     # state -> [(CharSet, state)]
        self.lookaheads = []
        self.start = self._new()
        self.final = self._new()
        self._build(self.tree, self.start, self.final)
        self.charsets = [cs for lst in self.trans.values() for cs, _ in lst]
        self._cands = candidates

    def _new(self):
        s = self.n
        self.n += 1
        self.eps[s] = []
        self.trans[s] = []
        return s

    def _build(self, seq, a, b):
        cur = a
        items = list(seq)
        if not items:
            self.eps[a].append(b)
            return
        for i, (op, arg) in enumerate(items):
            nxt = b if i == len(items) - 1 else self._new()
            self._item(op, arg, cur, nxt)
            cur = nxt

    def _item(self, op, arg, a, b):
        if op in (sre_c.LITERAL, sre_c.NOT_LITERAL, sre_c.ANY, sre_c.IN):
            self.trans[a].append((CharSet(op, arg, self.flags), b))
        elif op == sre_c.BRANCH:
            for alt in arg[1]:
                s, e = self._new(), self._new()
                self.eps[a].append(s)
                self._build(alt, s, e)
                self.eps[e].append(b)
        elif op == sre_c.SUBPATTERN:
            self._build(arg[-1], a, b)
        elif op in (sre_c.MAX_REPEAT, sre_c.MIN_REPEAT) or (hasattr(sre_c, 'POSSESSIVE_REPEAT') and op == sre_c.POSSESSIVE_REPEAT):
            lo, hi, body = arg
            cur = a
            for _ in range(lo):
                nxt = self._new()
                self._build(body, cur, nxt)
                cur = nxt
            if hi == sre_c.MAXREPEAT:
                loop_in, loop_out = self._new(), self._new()
                self.eps[cur].append(loop_in)
                self._build(body, loop_in, loop_out)
                self.eps[loop_out].append(loop_in)
                self.eps[loop_out].append(b)
                self.eps[cur].append(b)
            else:
                for _ in range(hi - lo):
                    nxt = self._new()
                    self.eps[cur].append(b)
                    self._build(body, cur, nxt)
                    cur = nxt
                self.eps[cur].append(b)
        elif op == sre_c.ASSERT or op == sre_c.ASSERT_NOT:
            self.lookaheads.append(arg[1])
            self.eps[a].append(b)
        elif op == sre_c.AT:
            self.eps[a].append(b)
        elif op == sre_c.ATOMIC_GROUP if hasattr(sre_c, 'ATOMIC_GROUP') else False:
            self._build(arg, a, b)
        else:
            raise AnalysisError('regex construct %s in %r is not modelled' % (op, self.pattern))

    # -- alphabet ---------------------------------------------------------------
    def classes(self, others=()):
        '''representatives of the partition of the alphabet induced by all character sets'''
        sets = list(self.charsets)
        for o in others:
            sets.extend(o.charsets)
        cands = list(CANDIDATES)
        for cs in sets:
            for cp in cs.mentioned():
                for d in (-1, 0, 1):
                    if 0 <= cp + d <= 0x10ffff:
                        cands.append(chr(cp + d))
        sig = {}
        for ch in cands:
            k = tuple(cs.contains(ch) for cs in sets)
            sig.setdefault(k, ch)
        return sorted(sig.values())

    # -- epsilon closure with path multiplicity ---------------------------------
    def _eps_paths(self, s):
        '''state -> number of distinct simple epsilon paths from s (capped at 2)'''
        count = {}
        stack = [(s, (s,))]
        while stack:
            q, path = stack.pop()
            count[q] = min(2, count.get(q, 0) + 1)
            for t in self.eps[q]:
                if t not in path:
                    stack.append((t, path + (t,)))
        return count

    def trim(self):
        fwd = set()
        stack = [self.start]
        while stack:
            q = stack.pop()
            if q in fwd:
                continue
            fwd.add(q)
            stack.extend(self.eps[q])
            stack.extend(t for _, t in self.trans[q])
        rev = {q: [] for q in range(self.n)}
        for q in range(self.n):
            for t in self.eps[q]:
                rev[t].append(q)
            for _, t in self.trans[q]:
                rev[t].append(q)
        bwd = set()
        stack = [self.final]
        while stack:
            q = stack.pop()
            if q in bwd:
                continue
            bwd.add(q)
            stack.extend(rev[q])
        return fwd & bwd

    def eda(self):
        '''returns None if the regex has no exponential ambiguity, else a witness dict'''
        live = self.trim()
        classes = self.classes()
        # epsilon-free multigraph: (p, class index, q, multiplicity)
        sig_states = [q for q in live if self.trans[q] or q == self.final or q == self.start]
        edges = []     # (p, c, q, k)  k distinguishes parallel edges
        for p in sig_states:
            ep = self._eps_paths(p)
            per = {}
            for m, mult in ep.items():
                if m not in live:
                    continue
                for cs, t in self.trans[m]:
                    if t not in live:
                        continue
                    # after the symbol, continue by epsilon to significant states
                    et = self._eps_paths(t)
                    for q, mult2 in et.items():
                        if q not in live or not (self.trans[q] or q == self.final):
                            continue
                        for ci, ch in enumerate(classes):
                            if cs.contains(ch):
                                key = (ci, q)
                                per[key] = min(2, per.get(key, 0) + min(2, mult * mult2))
            for (ci, q), mult in per.items():
                for k in range(mult):
                    edges.append((p, ci, q, k))
        # split edges by a middle state so that parallel edges become distinct states
        # product graph on "edge-states": nodes are pairs of (state | edge)
        out = {}
        for e in edges:
            out.setdefault(e[0], []).append(e)
        # nodes of product: (x, y) with x,y states ; step: choose edges e1 from x, e2 from y with same class
        # then pass through mid nodes (e1,e2) to (q1,q2)
        succ = {}
        nodes = set()

        def add(a, b):
            succ.setdefault(a, set()).add(b)
            nodes.add(a)
            nodes.add(b)

        for x in sig_states:
            for y in sig_states:
                for e1 in out.get(x, []):
                    for e2 in out.get(y, []):
                        if e1[1] != e2[1]:
                            continue
                        mid = ('m', e1, e2)
                        add(('s', x, y), mid)
                        add(mid, ('s', e1[2], e2[2]))
        # Tarjan SCC
        index = {}
        low = {}
        onstack = set()
        stack = []
        sccs = []
        counter = [0]
        import sys
        sys.setrecursionlimit(max(10000, sys.getrecursionlimit()))

        def strong(v):
            work = [(v, iter(succ.get(v, ())))]
            index[v] = low[v] = counter[0]
            counter[0] += 1
            stack.append(v)
            onstack.add(v)
            while work:
                node, it = work[-1]
                advanced = False
                for w in it:
                    if w not in index:
                        index[w] = low[w] = counter[0]
                        counter[0] += 1
                        stack.append(w)
                        onstack.add(w)
                        work.append((w, iter(succ.get(w, ()))))
                        advanced = True
                        break
                    elif w in onstack:
                        low[node] = min(low[node], index[w])
                if advanced:
                    continue
                work.pop()
                if work:
                    parent = work[-1][0]
                    low[parent] = min(low[parent], low[node])
                if low[node] == index[node]:
                    comp = []
                    while True:
                        w = stack.pop()
                        onstack.discard(w)
                        comp.append(w)
                        if w == node:
                            break
                    sccs.append(comp)

        for v in list(nodes):
            if v not in index:
                strong(v)
        for comp in sccs:
            if len(comp) < 2:
                continue
            diag = [v for v in comp if v[0] == 's' and v[1] == v[2]]
            off = [v for v in comp if (v[0] == 's' and v[1] != v[2]) or (v[0] == 'm' and v[1] != v[2])]
            if diag and off:
                w = off[0]
                ch = None
                if w[0] == 'm':
                    ch = classes[w[1][1]]
                else:
                    for v in comp:
                        if v[0] == 'm':
                            ch = classes[v[1][1]]
                            break
                return {'state': diag[0][1], 'char': ch, 'scc_size': len(comp)}
        return None

    def can_consume(self, ch):
        live = self.trim()
        for q in live:
            for cs, t in self.trans[q]:
                if t in live and cs.contains(ch):
                    return True
        return False

    # -- determinisation over a given class list -------------------------------
    def _closure(self, states):
        out = set(states)
        stack = list(states)
        while stack:
            q = stack.pop()
            for t in self.eps[q]:
                if t not in out:
                    out.add(t)
                    stack.append(t)
        return frozenset(out)

    def step(self, S, ch):
        nxt = set()
        for q in S:
            for cs, t in self.trans[q]:
                if cs.contains(ch):
                    nxt.add(t)
        return self._closure(nxt)

    def initial(self):
        return self._closure([self.start])

    def accepts_state(self, S):
        return self.final in S

    def matches(self, word):
        S = self.initial()
        for ch in word:
            S = self.step(S, ch)
            if not S:
                return False
        return self.accepts_state(S)


def included(a, b, limit=20000):
    '''L(a) subset of L(b)?  returns (True, None) or (False, witness word)'''
    classes = a.classes(others=[b])
    start = (a.initial(), b.initial())
    seen = {start: ''}
    queue = [start]
    while queue:
        sa, sb = queue.pop(0)
        w = seen[(sa, sb)]
        if a.accepts_state(sa) and not b.accepts_state(sb):
            return False, w
        for ch in classes:
            na = a.step(sa, ch)
            if not na:
                continue
            nb = b.step(sb, ch)
            key = (na, nb)
            if key not in seen:
                seen[key] = w + ch
                if len(seen) > limit:
                    raise AnalysisError('inclusion test exceeds %d product states' % limit)
                queue.append(key)
    return True, None


def intersect_witness(a, b, limit=20000):
    '''a word in L(a) and L(b), or None'''
    classes = a.classes(others=[b])
    start = (a.initial(), b.initial())
    seen = {start: ''}
    queue = [start]
    while queue:
        sa, sb = queue.pop(0)
        w = seen[(sa, sb)]
        if a.accepts_state(sa) and b.accepts_state(sb) and w:
            return w
        for ch in classes:
            na = a.step(sa, ch)
            nb = b.step(sb, ch)
            if not na or not nb:
                continue
            key = (na, nb)
            if key not in seen:
                seen[key] = w + ch
                if len(seen) > limit:
                    raise AnalysisError('intersection test exceeds %d product states' % limit)
                queue.append(key)
    return None


def prefix_conflict(a, b, limit=20000):
    '''a non-empty word u in L(b) that is a prefix of some word in L(a), or None.  Used for token shadowing: ply tries the
    token rules in definition order, so a rule b defined earlier steals the beginning of an `a` lexeme.'''
    classes = a.classes(others=[b])
    live = a.trim()
    start = (frozenset(s for s in a.initial() if s in live), b.initial())
    seen = {start: ''}
    queue = [start]
    while queue:
        sa, sb = queue.pop(0)
        w = seen[(sa, sb)]
        if w and b.accepts_state(sb) and sa:
            return w
        for ch in classes:
            na = frozenset(s for s in a.step(sa, ch) if s in live)
            nb = b.step(sb, ch)
            if not na or not nb:
                continue
            key = (na, nb)
            if key not in seen:
                seen[key] = w + ch
                if len(seen) > limit:
                    raise AnalysisError('prefix test exceeds %d product states' % limit)
                queue.append(key)
    return None
