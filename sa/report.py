'''
Engine `report`: rule bookkeeping, vacuity floors, known findings, evidence
JSON, VIOLATION / KNOWN-FINDING lines and exit codes.
'''
import json
import os
import sys
import time

from .src import AnalysisError, loc, qualname, src

VERIF = os.path.dirname(os.path.dirname(os.path.abspath(__file__)))
KNOWN_FILE = os.path.join(VERIF, 'known_findings.json')


def evidence_dir():
    return os.environ.get('PYX_EVIDENCE_DIR', os.path.join(VERIF, 'evidence'))


class Finding(object):
    def __init__(self, prop, rule, construct, key, where, message, facts=None):
        self.prop = prop
        self.rule = rule
        self.construct = construct
        self.key = key
        self.where = where
        self.message = message
        self.facts = facts or {}

    def ident(self):
        return (self.prop, self.rule, self.construct, self.key)

    def as_dict(self):
        return {'property': self.prop, 'rule': self.rule, 'construct': self.construct,
                'key': self.key, 'where': self.where, 'message': self.message,
                'facts': self.facts}


class Rule(object):
    def __init__(self, ctx, rule_id, desc, floor=0, oracle=''):
        self.ctx = ctx
        self.id = rule_id
        self.desc = desc
        self.floor = floor
        self.oracle = oracle
        self.instances = []     # (what, where)
        self.violations = []
        self.infos = []
        self.constructs = set()

    def _where(self, node):
        if node is None:
            return ''
        if isinstance(node, str):
            return node
        return loc(node)

    def ok(self, what, node=None, construct=None):
        '''one rule instance examined; it holds'''
        self.instances.append((what, self._where(node)))
        self.constructs.add(construct or what)

    def info(self, what, node=None):
        self.infos.append((what, self._where(node)))

    def violation(self, message, node=None, construct=None, key=None, facts=None):
        '''one rule instance examined; it fails on a construct that the
        analysis fully understood'''
        if construct is None:
            construct = qualname(node) if node is not None and not isinstance(node, str) else '?'
        if key is None:
            key = src(node) if node is not None and not isinstance(node, str) else message
        key = ' '.join(key.split())
        f = Finding(self.ctx.prop, self.id, construct, key, self._where(node), message, facts)
        self.instances.append((message, f.where))
        self.constructs.add(construct + '|' + key)
        self.violations.append(f)
        return f

    def check(self, cond, what, node=None, construct=None, key=None, msg=None, facts=None):
        if cond:
            self.ok(what, node, construct=(construct or '') + '|' + what)
        else:
            self.violation(msg or ('NOT: ' + what), node, construct, key, facts)
        return cond


class Ctx(object):
    def __init__(self, prop, tier, repo):
        self.prop = prop
        self.tier = tier
        self.repo = repo
        self.rules = []
        self.assumptions = []
        self.notes = []
        self.extra = {}
        self.level = 'other'
        self.analysis_errors = []
        self.t0 = time.time()

    def rule(self, rule_id, desc, floor=0, oracle=''):
        owner = rule_id.split('-', 1)[0]
        if owner != self.prop and '-' in rule_id:
            # a rule group of another property run for this one (ctx.shared): the mechanism it decides is a necessary
            # condition of both; the finding is reported under this property's own rule id
            new = '%s-%s' % (self.prop, rule_id.split('-', 1)[1])
            if any(r_.id == new for r_ in self.rules):
                new += '.' + owner
            desc = '%s [rule %s, shared]' % (desc, rule_id)
            rule_id = new
        r = Rule(self, rule_id, desc, floor, oracle)
        self.rules.append(r)
        return r

    def thorough(self):
        return self.tier == 'thorough'

    def guard(self, fn, *args, **kwargs):
        '''run one rule group; an AnalysisError inside it is recorded and the other groups still run.  If some group
        reports a violation the run ends with exit 1 (the violation is diagnosable); otherwise a recorded analysis error
        ends it with exit 2.'''
        try:
            return fn(*args, **kwargs)
        except AnalysisError as e:
            self.analysis_errors.append('%s: %s' % (getattr(fn, '__name__', 'rule'), e))
            return None

    def shared(self, fn, *args, **kwargs):
        '''run a rule group that is defined with another property (its rule ids are re-labelled, see rule())'''
        return self.guard(fn, *args, **kwargs)

    def assume(self, text):
        if text not in self.assumptions:
            self.assumptions.append(text)


def load_known():
    if not os.path.exists(KNOWN_FILE):
        return {'known': [], 'fixed': []}
    with open(KNOWN_FILE) as f:
        return json.load(f)


def finish(ctx, explanation, write_evidence=True):
    '''Print the report, write evidence, return the exit code.'''
    known = load_known()
    known_idx = {}
    for k in known.get('known', []):
        known_idx[(k['property'], k['rule'], k['construct'], ' '.join(k['key'].split()))] = k

    total_instances = 0
    constructs = set()
    unknown = []
    known_hit = []
    floor_errors = []
    samples = []
    rule_summ = []
    for r in ctx.rules:
        total_instances += len(r.instances)
        constructs |= set((r.id, c) for c in r.constructs)
        n_viol = len(r.violations)
        print('RULE %-18s instances=%-4d violations=%-2d %s' % (r.id, len(r.instances), n_viol, r.desc))
        for what, where in r.infos:
            print('  info %s %s' % (where, what))
        if len(r.instances) < r.floor:
            floor_errors.append('%s matched %d instances, fewer than the %d confirmed by hand'
                                % (r.id, len(r.instances), r.floor))
        for f in r.violations:
            if f.ident() in known_idx:
                known_hit.append((f, known_idx[f.ident()]))
            else:
                unknown.append(f)
        for what, where in r.instances[:3]:
            samples.append({'rule': r.id, 'instance': what, 'where': where})
        rule_summ.append({'rule': r.id, 'desc': r.desc, 'oracle': r.oracle,
                          'instances': len(r.instances), 'floor': r.floor,
                          'violations': n_viol, 'infos': len(r.infos)})

    for f, k in known_hit:
        print('KNOWN-FINDING: property=%s %s %s %s -- %s' % (f.prop, f.rule, f.where, f.construct,
                                                          k.get('what', f.message)))

    rc = 0
    replay_paths = []
    if unknown:
        rc = 1
        # development runs against scratch trees (PYX_NO_EVIDENCE) keep their replay files out of /verif/evidence
        write_replay = not os.environ.get('PYX_NO_EVIDENCE') or bool(os.environ.get('PYX_EVIDENCE_DIR'))
        rdir = os.path.join(evidence_dir(), 'replay')
        if write_replay:
            os.makedirs(rdir, exist_ok=True)
        for i, f in enumerate(unknown):
            print('%s %s %s -- %s' % (f.where, f.construct, f.rule, f.message))
            path = os.path.join(rdir, '%s-%s-%d.json' % (ctx.prop, f.rule, i))
            if write_replay:
                with open(path, 'w') as fh:
                    json.dump(f.as_dict(), fh, indent=1)
            replay_paths.append(path)
            print('VIOLATION property=%s replay=%s' % (ctx.prop, path))
    for e in ctx.analysis_errors:
        print('ANALYSIS-ERROR property=%s %s' % (ctx.prop, e))
    if (floor_errors or ctx.analysis_errors) and rc == 0:
        for e in floor_errors:
            print('ANALYSIS-ERROR property=%s %s' % (ctx.prop, e))
        rc = 2

    wall = time.time() - ctx.t0
    coverage = {
        'explanation': explanation,
        'evaluations': total_instances,
        'distinct_nontrivial': len(constructs),
        'rule': 'one evaluation = one rule instance (a function path, call site, production, handler, '
                'regex, table entry or schema fact) examined in the current source of %s; distinct = '
                'distinct (rule, construct) pairs on which the rule had something to decide' % ctx.repo.root,
        'samples': samples[:40],
        'rules': rule_summ,
        'modules_analysed': sorted(ctx.repo.modules),
        'source_digest': ctx.repo.digest(),
        'known_findings_reported': [f.as_dict() for f, _ in known_hit],
        'exhaustive': False,
    }
    eq = getattr(ctx.repo, 'equivalence', None)
    if eq is not None:
        coverage['equivalence_to_reference'] = {
            'rule': 'a function whose normal form (sa/normal.py) equals the normal form of the reference function is read in its '
                    'reference spelling; every other function is read as written',
            'reference_functions': eq['reference_functions'], 'textually_identical': eq['identical'],
            'proven_equivalent': eq['proven_equivalent'], 'changed': eq['changed'], 'missing': eq['missing'], 'new': eq['new']}
    coverage.update(ctx.extra)
    ev = {
        'property_id': ctx.prop,
        'tier': ctx.tier,
        'seed': int(os.environ.get('VERIF_SEED', '0') or 0),
        'level': ctx.level,
        'coverage': coverage,
        'assumptions': ctx.assumptions,
        'wall_s': round(wall, 3),
        'violations': len(unknown),
    }
    if write_evidence and not os.environ.get('PYX_NO_EVIDENCE'):
        os.makedirs(evidence_dir(), exist_ok=True)
        with open(os.path.join(evidence_dir(), '%s.json' % ctx.prop), 'w') as fh:
            json.dump(ev, fh, indent=1, sort_keys=True)
            fh.write('\n')
    print('RESULT property=%s tier=%s rules=%d instances=%d distinct=%d violations=%d known=%d exit=%d wall=%.2fs'
          % (ctx.prop, ctx.tier, len(ctx.rules), total_instances, len(constructs), len(unknown),
             len(known_hit), rc, wall))
    return rc
